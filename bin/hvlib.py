"""Shared machinery of /verif/bin/check: building, running TLC, parsing its output,
evidence files, known findings, verdict lines.  See DESIGN.md sections 4, 5 and 10."""
import json, os, re, subprocess, sys, time, shutil, hashlib

VERIF = os.path.dirname(os.path.dirname(os.path.abspath(__file__)))
REPO = os.environ.get("HYEONG_REPO", "/repo")
SPEC = os.path.join(VERIF, "spec")
BUILD = os.path.join(VERIF, "build")
HARNESS = os.path.join(VERIF, "harness")
HBIN = os.path.join(BUILD, "harness-target", "release")
REPO_TARGET = os.path.join(BUILD, "repo-target")
HYEONG = os.path.join(REPO_TARGET, "release", "hyeong")
EVID = os.path.join(VERIF, "evidence")
KNOWN = os.path.join(VERIF, "KNOWN_FINDINGS.txt")
TLA_CP = "/opt/veriftools/tla/tla2tools.jar:/opt/veriftools/tla/CommunityModules-deps.jar"


class ToolError(Exception):
    """failure of the tooling itself (exit status 2), never a verdict"""


_T0 = time.time()


def log(*a):
    print("[check %6.1fs]" % (time.time() - _T0), *a, file=sys.stderr, flush=True)


def sh(cmd, **kw):
    return subprocess.run(cmd, **kw)


# ----------------------------------------------------------------------------- building
_built = {}


def cargo_env():
    e = dict(os.environ)
    e["CARGO_NET_OFFLINE"] = "true"
    e.pop("RUSTFLAGS", None)
    return e


def build_harness():
    """(re)build the harness against /repo's current working tree, hooks on"""
    if "harness" in _built:
        return
    os.makedirs(BUILD, exist_ok=True)
    lock = os.path.join(HARNESS, "Cargo.lock")
    if not os.path.exists(lock):
        shutil.copy(os.path.join(REPO, "Cargo.lock"), lock)
    t = time.time()
    r = sh(["cargo", "build", "--release", "--offline", "-q"], cwd=HARNESS, env=cargo_env(),
           stdout=subprocess.PIPE, stderr=subprocess.STDOUT, text=True)
    if r.returncode != 0:
        raise ToolError("harness / repository does not build:\n" + r.stdout[-3000:])
    log("harness built in %.1fs" % (time.time() - t))
    _built["harness"] = True


def build_hyeong():
    """the real `hyeong` binary from /repo's working tree (hook cfg on: add-only accessors)"""
    if "hyeong" in _built:
        return HYEONG
    os.makedirs(BUILD, exist_ok=True)
    e = cargo_env()
    e["RUSTFLAGS"] = "--cfg hyeong_verif --check-cfg cfg(hyeong_verif)"
    t = time.time()
    r = sh(["cargo", "build", "--release", "--offline", "-q", "--manifest-path", os.path.join(REPO, "Cargo.toml"),
            "--target-dir", REPO_TARGET], env=e, stdout=subprocess.PIPE, stderr=subprocess.STDOUT, text=True)
    if r.returncode != 0 or not os.path.exists(HYEONG):
        raise ToolError("repository does not build:\n" + r.stdout[-3000:])
    log("hyeong binary built in %.1fs" % (time.time() - t))
    _built["hyeong"] = True
    return HYEONG


NUMLIB_TARGET = os.path.join(BUILD, "numlib-target")


def build_numlib():
    """number-only rlib of /repo that emitted Rust programs link against"""
    if "numlib" in _built:
        return _built["numlib"]
    e = cargo_env()
    r = sh(["cargo", "build", "--release", "--offline", "-q", "--lib", "--no-default-features", "--features", "number",
            "--manifest-path", os.path.join(REPO, "Cargo.toml"), "--target-dir", NUMLIB_TARGET],
           env=e, stdout=subprocess.PIPE, stderr=subprocess.STDOUT, text=True)
    rlib = os.path.join(NUMLIB_TARGET, "release", "libhyeong.rlib")
    if r.returncode != 0 or not os.path.exists(rlib):
        raise ToolError("number-only library does not build:\n" + r.stdout[-3000:])
    _built["numlib"] = rlib
    return rlib


# ----------------------------------------------------------------------------- TLC
_tlc_seq = [0]


class TlcResult:
    def __init__(self):
        self.generated = 0
        self.distinct = 0
        self.tuples = []      # parsed PrintT tuples (lists)
        self.ok = False       # "Model checking completed. No error has been found."
        self.error = None     # text of a TLC error, if any
        self.raw_tail = ""
        self.wall = 0.0
        self.coverage = {}    # action name -> count (when -coverage)


def parse_tla_value(s):
    """parse the TLA+ values PrintT emits for tuples of strings / integers / booleans"""
    i = [0]

    def ws():
        while i[0] < len(s) and s[i[0]].isspace():
            i[0] += 1

    def val():
        ws()
        if s.startswith("<<", i[0]):
            i[0] += 2
            out = []
            ws()
            if s.startswith(">>", i[0]):
                i[0] += 2
                return out
            while True:
                out.append(val())
                ws()
                if s.startswith(",", i[0]):
                    i[0] += 1
                    continue
                if s.startswith(">>", i[0]):
                    i[0] += 2
                    return out
                raise ValueError("bad tuple at %d in %r" % (i[0], s[:200]))
        if s[i[0]] == '"':
            i[0] += 1
            buf = []
            while s[i[0]] != '"':
                if s[i[0]] == "\\":
                    i[0] += 1
                    c = s[i[0]]
                    buf.append({"n": "\n", "t": "\t", "r": "\r", "f": "\f"}.get(c, c))
                else:
                    buf.append(s[i[0]])
                i[0] += 1
            i[0] += 1
            return "".join(buf)
        m = re.match(r"-?\d+", s[i[0]:])
        if m:
            i[0] += len(m.group(0))
            return int(m.group(0))
        for w, v in (("TRUE", True), ("FALSE", False)):
            if s.startswith(w, i[0]):
                i[0] += len(w)
                return v
        raise ValueError("cannot parse TLA value at %d: %r" % (i[0], s[i[0]:i[0] + 80]))

    return val()


def tlc(module, cfg, env=None, workers=1, timeout=600, xss="1g", xmx=None, deque=False, coverage=False,
        simulate=None, keep=None, on_tuple=None):
    """run TLC on spec/<module>.tla with spec/<cfg>; returns TlcResult.
    PrintT tuples whose first element is an upper-case tag are collected (or streamed to on_tuple)."""
    _tlc_seq[0] += 1
    meta = os.path.join(BUILD, "tlc", "%s_%d_%d" % (module, os.getpid(), _tlc_seq[0]))
    os.makedirs(meta, exist_ok=True)
    e = dict(os.environ)
    if env:
        e.update({k: str(v) for k, v in env.items()})
    jopts = ["-Xss" + xss]
    # bounded heaps: up to a dozen trace validators run side by side, and the JVM's default (a quarter of
    # the machine per process) invites the kernel's OOM killer
    if workers == 1:
        xmx = "3g" if xmx in (None, "3g", "4g") else xmx
    else:
        xmx = xmx or "12g"
    jopts.append("-Xmx" + xmx)
    jopts.append("-Djava.io.tmpdir=" + meta)       # TLC's scratch directories go away with the metadir, not into /tmp
    if deque:
        jopts.append("-Dtlc2.tool.queue.IStateQueue=StateDeque")
    cmd = ["java", "-XX:+UseParallelGC"] + jopts + ["-cp", TLA_CP, "tlc2.TLC", "-workers", str(workers), "-metadir", meta,
           "-cleanup", "-noGenerateSpecTE", "-config", cfg]
    if coverage:
        cmd += ["-coverage", "1"]
    if simulate:
        cmd += ["-simulate", simulate]
    cmd += [module + ".tla"]
    res = TlcResult()
    t0 = time.time()
    p = subprocess.Popen(cmd, cwd=SPEC, env=e, stdout=subprocess.PIPE, stderr=subprocess.STDOUT, text=True, bufsize=1 << 16)
    tail = []
    pending = None
    killed = False
    import threading

    def killer():
        nonlocal killed
        killed = True
        p.kill()

    timer = threading.Timer(timeout, killer)
    timer.start()
    try:
        for line in p.stdout:
            line = line.rstrip("\n")
            if pending is not None:
                pending += "\n" + line
                if pending.count("<<") <= pending.count(">>"):
                    _take(res, pending, on_tuple)
                    pending = None
                continue
            if line.startswith('<<"REPLAY", "') and line.endswith('">>'):
                # fast path for the bulk of the output: one JSON string
                payload = line[13:-3].replace('\\"', '"').replace("\\\\", "\\")
                v = ["REPLAY", payload]
                if on_tuple:
                    on_tuple(v)
                else:
                    res.tuples.append(v)
                continue
            if line.startswith('<<"') and line[3:4].isupper():
                if line.count("<<") <= line.count(">>"):
                    _take(res, line, on_tuple)
                else:
                    pending = line
                continue
            tail.append(line)
            if len(tail) > 400:
                del tail[:200]
            m = re.match(r"(\d+) states generated, (\d+) distinct states found", line)
            if m:
                res.generated, res.distinct = int(m.group(1)), int(m.group(2))
            if "Model checking completed. No error has been found." in line:
                res.ok = True
            if line.startswith("Error:") and res.error is None:
                res.error = line
            m = re.match(r"<(\w+) line \d+, col \d+ to line \d+, col \d+ of module (\w+)>: (\d+):(\d+)", line)
            if m:
                res.coverage[m.group(1)] = res.coverage.get(m.group(1), 0) + int(m.group(4))
    finally:
        timer.cancel()
    p.wait()
    res.wall = time.time() - t0
    res.raw_tail = "\n".join(tail[-120:])
    shutil.rmtree(meta, ignore_errors=True)
    if killed:
        raise ToolError("TLC timed out after %ds on %s/%s" % (timeout, module, cfg))
    if simulate and not res.error:
        res.ok = True
    return res


def _take(res, text, on_tuple):
    try:
        v = parse_tla_value(text)
    except Exception as ex:  # unparsable print: keep as raw
        v = ["RAW", text, str(ex)]
    if on_tuple:
        on_tuple(v)
    else:
        res.tuples.append(v)


def require_ok(res, what):
    if not res.ok:
        raise ToolError("TLC did not complete on %s: %s\n%s" % (what, res.error, res.raw_tail[-2500:]))


def write_cfg(name, text):
    """generated .cfg files live next to the modules (TLC resolves -config relative to cwd)"""
    path = os.path.join(SPEC, name)
    os.makedirs(os.path.dirname(path), exist_ok=True)
    with open(path, "w") as f:
        f.write(text)
    return name


# ----------------------------------------------------------------------------- verdicts / evidence
class Check:
    def __init__(self, pid, tier, seed, level):
        self.pid, self.tier, self.seed, self.level = pid, tier, seed, level
        self.t0 = time.time()
        self.violations = []       # (signature, replay path)
        self.known_hits = []
        self.cov = {"samples": [], "binding_drift": [], "vacuity": {}, "states": 0, "transitions": 0,
                    "traces_validated_against_impl": 0, "exhaustive": False}
        self.assumptions = []
        self.known = load_known(pid)
        os.makedirs(os.path.join(BUILD, "replay", pid), exist_ok=True)
        self._n = 0
        self.write_evidence = True   # --replay runs re-check one case and leave the evidence file alone

    def add_tlc(self, res):
        self.cov["states"] += res.distinct
        self.cov["transitions"] += res.generated

    def sample(self, s, cap=6):
        if len(self.cov["samples"]) < cap:
            if not isinstance(s, str):
                s = json.dumps(s, ensure_ascii=False)
            self.cov["samples"].append(s[:1500])

    def violation(self, signature, payload):
        """signature: short stable text identifying the failing input (matched against KNOWN_FINDINGS)"""
        for k in self.known:
            if k and k in signature:
                if k not in self.known_hits:
                    self.known_hits.append(k)
                    print("KNOWN-FINDING: property=%s %s" % (self.pid, k), flush=True)
                return
        self._n += 1
        if self._n > 25:
            self.violations.append((signature, None))
            return
        h = hashlib.sha1(signature.encode()).hexdigest()[:10]
        path = os.path.join(BUILD, "replay", self.pid, "%s_%s.json" % (self.tier, h))
        with open(path, "w") as f:
            json.dump({"property": self.pid, "signature": signature, "payload": payload}, f, ensure_ascii=False, indent=1)
        self.violations.append((signature, path))
        print("VIOLATION property=%s replay=%s" % (self.pid, path), flush=True)
        print("  " + signature[:300], flush=True)

    def enough(self):
        """a check that has already reported this many violations stops exploring: the verdict is settled,
        and a change that makes the code hang must not make the check run for hours"""
        return len(self.violations) >= 25

    def finish(self):
        wall = time.time() - self.t0
        cov = self.cov
        ev = {"property_id": self.pid, "tier": self.tier, "seed": self.seed, "level": self.level,
              "coverage": cov, "assumptions": self.assumptions, "wall_s": round(wall, 2),
              "violations": len(self.violations)}
        if not cov["samples"]:
            cov["samples"] = ["(no sample recorded)"]
        if self.write_evidence:
            os.makedirs(EVID, exist_ok=True)
            with open(os.path.join(EVID, self.pid + ".json"), "w") as f:
                json.dump(ev, f, ensure_ascii=False, indent=1)
        log("%s %s: %d violation(s), %.1fs" % (self.pid, self.tier, len(self.violations), wall))
        return 1 if self.violations else 0


def load_known(pid):
    """open findings for a property: lines `open: property=<id> <signature text>`"""
    out = []
    if os.path.exists(KNOWN):
        for line in open(KNOWN, encoding="utf-8"):
            line = line.strip()
            m = re.match(r"open:\s+property=(\S+)\s+(.*)", line)
            if m and m.group(1) == pid:
                out.append(m.group(2).strip())
    return out


def run_lines(cmd, stdin_text=None, timeout=600, cwd=None, env=None):
    r = sh(cmd, input=stdin_text, stdout=subprocess.PIPE, stderr=subprocess.PIPE, text=True, timeout=timeout, cwd=cwd, env=env)
    return r


def tmpdir(name):
    d = os.path.join(BUILD, "work", name)
    shutil.rmtree(d, ignore_errors=True)
    os.makedirs(d, exist_ok=True)
    return d
