"""C04, C08: grammar / parser / renderer (HyGrammar, HyParser, HyRender) - DESIGN 6."""
import json, os, subprocess, concurrent.futures as cf
from hvlib import *
from . import register

HVPARSE = os.path.join(HBIN, "hv-parse")

# class-representative alphabets (code points); rotating them covers every table entry
# 형 흑 혀 하 엉 앙 앗 가 . … ? ! ♥ 💕 ♡ space newline x
ALPHA_A = [54805, 55121, 54784, 54616, 50633, 50521, 50519, 44032, 46, 8230, 63, 33, 9829, 128149, 9825, 32, 10, 120]
# 항 흣 흐 혀 읏 윽 엉 힣 ⋯ ⋮ ? ! ❤ 💝 💖 tab U+3000 U+10000
ALPHA_B = [54637, 55139, 55120, 54784, 51023, 51005, 50633, 55203, 8943, 8942, 63, 33, 10084, 128157, 128150, 9, 12288, 65536]
# 핫 흡 하 흐 앗 읍 앙 U+D7A4(not hangul) . ⋮ ? ! 💗 💘 💙 CR U+2028 U+2665-1
ALPHA_C = [54635, 55137, 54616, 55120, 50519, 51021, 50521, 55204, 46, 8942, 63, 33, 128151, 128152, 128153, 13, 8232, 9828]
# remaining hearts 💚 💛 💜 with a reduced set
ALPHA_D = [54805, 54784, 50633, 46, 63, 33, 128154, 128155, 128156, 9825, 10, 44031]


def mc_parser(ck, name, alphabet, maxlen, dump=True):
    work = tmpdir("parse_%s_%s" % (ck.pid, name))
    cases = os.path.join(work, "cases.json")
    cfg = write_cfg("gen/MC_HyParser_%s_%s.cfg" % (ck.pid, name),
                    "SPECIFICATION Spec\nCONSTANTS\n  Alphabet = {%s}\n  MaxLen = %d\n  DumpOn = %s\n"
                    "INVARIANT ParserIsGrammar\nINVARIANT FoldIsRecursion\nINVARIANT Reparse\nINVARIANT ListingDetermines\nINVARIANT Dump\nCHECK_DEADLOCK FALSE\n"
                    % (", ".join(map(str, alphabet)), maxlen, "TRUE" if dump else "FALSE"))
    n = [0]
    with open(cases, "w") as f:
        def take(t):
            if t[0] == "REPLAY":
                f.write(t[1] + "\n")
                n[0] += 1
        r = tlc("MC_HyParser", cfg, workers=16, timeout=2400, xss="512m", on_tuple=take)
    if r.error and "violated" in (r.error or ""):
        raise ToolError("specification self-inconsistency (parser machine vs grammar): %s\n%s" % (r.error, r.raw_tail[-1500:]))
    require_ok(r, "MC_HyParser " + name)
    ck.add_tlc(r)
    ck.cov["vacuity"]["MC_HyParser_%s_texts" % name] = r.distinct
    if dump:
        replay_cases(ck, cases, n[0], "R %s" % name)


def replay_cases(ck, cases, n, tag):
    try:
        p = subprocess.run([HVPARSE, "replay", "--in", cases], stdout=subprocess.PIPE, text=True, timeout=600 + n // 2000)
    except subprocess.TimeoutExpired:
        ck.violation("%s parse::parse does not return on some enumerated text (harness timed out)" % tag, {"kind": "hang", "cases": cases})
        return
    if p.returncode != 0:
        raise ToolError("hv-parse replay failed")
    done = None
    for line in p.stdout.split("\n"):
        if not line.strip():
            continue
        o = json.loads(line)
        if o.get("done"):
            done = o
            continue
        sig = "%s text=%s :: %s" % (tag, json.dumps(o.get("text"), ensure_ascii=False), o["mismatch"])
        ck.violation(sig, {"kind": "rcase", "t": o["t"], "text": o.get("text"), "want": o.get("want"), "got": o.get("got")})
    if done is None or done["cases"] != n:
        raise ToolError("replay incomplete: %r of %d" % (done, n))
    ck.cov["traces_validated_against_impl"] += n
    with open(cases) as f:
        for i, l in enumerate(f):
            if i == 7 * (len(ck.cov["samples"]) + 1) ** 3:
                o = json.loads(l)
                ck.sample({"text": "".join(chr(c) for c in o["t"]), "commands": o["c"]})
            if i > 3000:
                break


def mc_render(ck, name, consts, dump):
    work = tmpdir("render_%s_%s" % (ck.pid, name))
    cases = os.path.join(work, "cases.json")
    cfg = write_cfg("gen/MC_HyRender_%s.cfg" % name,
                    "SPECIFICATION Spec\nCONSTANTS\n%s  DumpOn = %s\nINVARIANT RoundTrip\nINVARIANT Dump\nCHECK_DEADLOCK FALSE\n"
                    % ("".join("  %s = %s\n" % kv for kv in consts.items()), "TRUE" if dump else "FALSE"))
    n = [0]
    with open(cases, "w") as f:
        def take(t):
            if t[0] == "REPLAY":
                f.write(t[1] + "\n")
                n[0] += 1
        r = tlc("MC_HyRender", cfg, workers=16, timeout=2400, xss="512m", on_tuple=take)
    if r.error and "violated" in (r.error or ""):
        raise ToolError("specification self-inconsistency (renderer vs grammar): %s\n%s" % (r.error, r.raw_tail[-1500:]))
    require_ok(r, "MC_HyRender " + name)
    ck.add_tlc(r)
    ck.cov["vacuity"]["MC_HyRender_%s_states" % name] = r.distinct
    if dump:
        replay_cases(ck, cases, n[0], "R render-%s" % name)


def validate(path):
    return tlc("Trace_HyParser", "Trace_HyParser.cfg", env={"TRACE": path}, workers=1, timeout=3000, xss="1g", xmx="4g")


def t_traces(ck, jobs, wanted):
    """jobs: list of argv for hv-parse (without --out); wanted: event kinds that count for this property"""
    work = tmpdir("parseT_%s" % ck.pid)
    files = []
    for i, argv in enumerate(jobs):
        path = os.path.join(work, "t%d.ndjson" % i)
        try:
            p = subprocess.run([HVPARSE] + argv + ["--out", path], timeout=900)
        except subprocess.TimeoutExpired:
            ck.violation("T parse::parse does not return on some generated text (hv-parse %s timed out)" % " ".join(argv), {"kind": "hang", "argv": argv})
            continue
        if p.returncode != 0:
            raise ToolError("hv-parse %s failed" % argv[0])
        files.append(path)
    with cf.ThreadPoolExecutor(max_workers=8) as ex:
        results = list(ex.map(validate, files))
    total = 0
    for path, r in zip(files, results):
        events = [json.loads(l) for l in open(path).read().split("\n") if l.strip()]
        end = [t for t in r.tuples if t[0] == "TRACE-END"]
        if not end or end[0][1] != end[0][2] or end[0][2] != len(events):
            raise ToolError("Trace_HyParser did not consume %s: %r %s\n%s" % (path, end, r.error, r.raw_tail[-1500:]))
        ck.add_tlc(r)
        total += len(events)
        for t in r.tuples:
            if t[0] == "HARNESS":
                raise ToolError("harness produced an invalid rendering at event %d of %s" % (t[1], path))
            if t[0] != "MISMATCH":
                continue
            e = json.loads(t[2])
            if not wanted(e, json.loads(t[3])):
                ck.cov["mismatches_attributed_elsewhere"] = ck.cov.get("mismatches_attributed_elsewhere", 0) + 1
                continue
            text = "".join(chr(c) for c in e["t"])
            sig = "T %s text=%s" % (e["ev"], json.dumps(text[:120], ensure_ascii=False))
            ck.violation(sig, {"kind": "event", "event": e, "expected": json.loads(t[3])})
        ev = events[len(events) // 2]
        ck.sample({"ev": ev["ev"], "text": "".join(chr(c) for c in ev["t"])[:200]})
    ck.cov["traces_validated_against_impl"] += total
    ck.cov["vacuity"]["T_events"] = total


def do_replay(ck, path):
    pl = json.load(open(path))["payload"]
    work = tmpdir("parse_replay_%s" % ck.pid)
    if pl["kind"] == "rcase":
        f = os.path.join(work, "case.json")
        open(f, "w").write(json.dumps({"t": pl["t"], "c": pl["want"]}) + "\n")
        replay_cases(ck, f, 1, "R replay")
    else:
        # re-record the same text through the current parser and validate again
        e = pl["event"]
        text = "".join(chr(c) for c in e["t"])
        f = os.path.join(work, "case.json")
        open(f, "w").write(json.dumps({"t": e["t"], "c": pl["expected"]}) + "\n")
        replay_cases(ck, f, 1, "T replay")
    return ck.finish()


@register("C04")
def check_c04(pid, tier, seed, replay):
    ck = Check(pid, tier, seed, "model_checking")
    build_harness()
    ck.assumptions = [
        "oracle: HyGrammar.tla (declarative) evaluated by TLC; HyParser.tla (operational model of parse.rs) is model-checked equal to it on every enumerated text",
        "texts longer than the enumeration bound are sampled (seeded); area chains beyond 4096 operators are outside the claim",
    ]
    if replay:
        ck.write_evidence = False
        return do_replay(ck, replay)
    quick = tier == "quick"
    if quick:
        mc_parser(ck, "A4", ALPHA_A, 4)
        mc_parser(ck, "B3", ALPHA_B, 3)
        mc_parser(ck, "C3", ALPHA_C, 3)
        mc_parser(ck, "D4", ALPHA_D, 4)
    else:
        mc_parser(ck, "A5", ALPHA_A, 5)
        mc_parser(ck, "B4", ALPHA_B, 4)
        mc_parser(ck, "C4", ALPHA_C, 4)
        mc_parser(ck, "D6", ALPHA_D, 6)
    ck.cov["exhaustive"] = True
    if ck.enough():
        return ck.finish()
    # the parser machine stepped arm by arm: every arm of the `match` must fire (vacuity), and the
    # stepped machine must agree with the grammar at the end of every text
    cfg = write_cfg("gen/MC_HyParserSteps.cfg", "SPECIFICATION Spec\nCONSTANTS\n  Alphabet = {%s}\n  MaxLen = %d\nINVARIANT SteppedIsGrammar\nCHECK_DEADLOCK FALSE\n"
                    % (", ".join(map(str, ALPHA_A)), 3 if quick else 4))
    r = tlc("MC_HyParserSteps", cfg, workers=16, timeout=1800, xss="512m", coverage=True)
    require_ok(r, "MC_HyParserSteps")
    ck.add_tlc(r)
    arms = {k: v for k, v in r.coverage.items() if k.startswith("Arm")}
    ck.cov["vacuity"]["parser_arms_fired"] = arms
    if len(arms) != 9 or any(v == 0 for v in arms.values()):
        raise ToolError("vacuity: not every arm of the parser machine fired: %r" % arms)
    if quick:
        jobs = [["record", "--seed", str(seed + i), "--n", "500", "--maxlen", str(ml)] for i, ml in enumerate([40, 120, 400])]
        jobs.append(["record", "--seed", str(seed + 9), "--n", "3", "--maxlen", "30", "--chain", "4096"])
    else:
        jobs = [["record", "--seed", str(seed + i), "--n", "2500", "--maxlen", str(ml)] for i, ml in enumerate([20, 40, 80, 120, 200, 400, 400, 60] * 2)]
        jobs += [["record", "--seed", str(seed + 90 + i), "--n", "4", "--maxlen", "30", "--chain", "4096"] for i in range(4)]
    # C04 owns: panics, and any difference in the first parse (c); the re-parse clause belongs to C08
    t_traces(ck, jobs, lambda e, want: e["ev"] == "panic" or e.get("c") != want)
    ck.cov["rule"] = "R: every text up to the bound over four class-representative alphabets (exhaustive); T: seeded random Unicode texts"
    return ck.finish()


@register("C08")
def check_c08(pid, tier, seed, replay):
    ck = Check(pid, tier, seed, "model_checking")
    build_harness()
    ck.assumptions = [
        "oracle: HyGrammar.tla; HyRender.tla enumerates renderings with ignorable characters and TLC checks Commands(Render(c)) = c",
        "the harness renderer for large command lists is itself checked against the grammar (an invalid rendering is a tooling error, not a violation)",
    ]
    if replay:
        ck.write_evidence = False
        return do_replay(ck, replay)
    quick = tier == "quick"
    if quick:
        mc_render(ck, "one", {"MaxCmds": 1, "Kinds": "{0, 2, 5}", "Hs": "{1, 2, 3}", "Ds": "{0, 1, 4}", "AreaToks": 1, "Rich": "TRUE"}, dump=False)
        mc_render(ck, "two", {"MaxCmds": 2, "Kinds": "{5}", "Hs": "{1, 2}", "Ds": "{0, 3}", "AreaToks": 1, "Rich": "FALSE"}, dump=True)
        mc_parser(ck, "A3", ALPHA_A, 3, dump=False)       # Reparse + ListingDetermines on every small text
    else:
        mc_render(ck, "one", {"MaxCmds": 1, "Kinds": "{0, 2, 5}", "Hs": "{1, 2, 3}", "Ds": "{0, 1, 4}", "AreaToks": 2, "Rich": "TRUE"}, dump=False)
        mc_render(ck, "two", {"MaxCmds": 2, "Kinds": "{0, 5}", "Hs": "{1, 2}", "Ds": "{0, 3}", "AreaToks": 1, "Rich": "FALSE"}, dump=True)
        mc_render(ck, "three", {"MaxCmds": 3, "Kinds": "{1}", "Hs": "{1}", "Ds": "{0, 3}", "AreaToks": 1, "Rich": "FALSE"}, dump=False)
        mc_parser(ck, "A4", ALPHA_A, 4, dump=False)
    ck.cov["exhaustive"] = True
    if quick:
        jobs = [["render", "--seed", str(seed + i), "--n", "600"] for i in range(2)]
        jobs.append(["render", "--seed", str(seed + 5), "--n", "2", "--big"])
        jobs.append(["record", "--seed", str(seed + 7), "--n", "500", "--maxlen", "120"])
        jobs.append(["listing", "--seed", str(seed + 8), "--n", "40", "--hyeong", build_hyeong()])
    else:
        jobs = [["render", "--seed", str(seed + i), "--n", "3000"] for i in range(8)]
        jobs += [["render", "--seed", str(seed + 20 + i), "--n", "2", "--big"] for i in range(6)]
        jobs += [["record", "--seed", str(seed + 40 + i), "--n", "2500", "--maxlen", "200"] for i in range(4)]
        jobs.append(["listing", "--seed", str(seed + 8), "--n", "400", "--hyeong", build_hyeong()])
    # C08 owns: renderings that do not read back, the re-parse clause, the listing; a plain mis-parse of a
    # random text (c differs) is C04's
    def wanted(e, want):
        if e["ev"] in ("render", "listing"):
            return True
        if e["ev"] == "parse":
            return e.get("c") == want
        return e["ev"] == "panic"
    t_traces(ck, jobs, wanted)
    ck.cov["rule"] = "M: every rendering of every command list of the bounded family; R: renderings replayed into parse::parse; T: seeded large command lists, re-parse of raw texts, `check` listings"
    return ck.finish()
