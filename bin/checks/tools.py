"""C11 (debugger), C12 (interactive interpreter), C13 (command line) - DESIGN 6."""
import json, os, random, subprocess, concurrent.futures as cf
from hvlib import *
from . import register
from . import machine as M

HVCLI = os.path.join(HBIN, "hv-cli")


def validate_tools(path):
    return tlc("Trace_HyTools", "Trace_HyTools.cfg", env={"TRACE": path}, workers=1, timeout=3400, xss="1g", xmx="4g", deque=True)


def run_cli(kind, cases_path, tag):
    work = tmpdir("tools_%s_%s" % (kind, tag))
    hy = build_hyeong()
    return M.sharded(cases_path, work, lambda i, o, w: [HVCLI, kind, "--in", i, "--out", o, "--work", w, "--hyeong", hy, "--jobs", "2"])


def validate_sessions(ck, trace, parts, describe, label, retry_kind=None):
    """retry_kind: "dbg" | "repl" | "cli" - sessions killed by the harness's time limit are repeated once,
    alone, before they count (a loaded machine must not turn into an alarm)"""
    lines = [l for l in open(trace).read().split("\n") if l.strip()]
    timed = []
    parts = max(1, min(parts, (len(lines) + 39) // 40))
    files = []
    for i in range(parts):
        p = "%s.part%d" % (trace, i)
        open(p, "w").write("\n".join(lines[i::parts]) + "\n")
        files.append(p)
    t0 = time.time()
    with cf.ThreadPoolExecutor(max_workers=min(12, len(files))) as ex:
        results = list(ex.map(validate_tools, files))
    total = skipped = 0
    for path, r in zip(files, results):
        n = sum(1 for l in open(path) if l.strip())
        end = [t for t in r.tuples if t[0] == "TRACE-END"]
        if not end or end[0][1] != end[0][2] or end[0][2] != n:
            raise ToolError("Trace_HyTools did not consume %s: %r %s\n%s" % (path, end, r.error, r.raw_tail[-2500:]))
        ck.add_tlc(r)
        total += n
        for t in r.tuples:
            if t[0] == "SKIP":
                skipped += 1
            if t[0] == "LOG-OK":
                ck.cov["vacuity"]["tool_log_lines_conform"] = ck.cov["vacuity"].get("tool_log_lines_conform", 0) + 1
            if t[0] == "LOG-DRIFT":
                # outside the listed properties: reported, never a violation
                ck.cov["vacuity"]["tool_log_lines_drift"] = ck.cov["vacuity"].get("tool_log_lines_drift", 0) + 1
                log("LOG-DRIFT (not a violation): `%s -O%s%s` logged %s" % (t[3], t[4], " --verbose" if t[5] else "", t[2]))
            if t[0] != "MISMATCH":
                continue
            e = json.loads(t[2])
            exp = json.loads(t[3]) if len(t) > 3 else None
            if retry_kind and e.get("timeout"):
                timed.append(e)
                continue
            ck.violation("%s %s" % (label, describe(e)), {"kind": e["ev"], "event": e, "expected": exp})
    ck.cov["traces_validated_against_impl"] += total - skipped
    ck.cov["vacuity"][label + "_sessions"] = ck.cov["vacuity"].get(label + "_sessions", 0) + total
    ck.cov["vacuity"][label + "_not_claimed"] = ck.cov["vacuity"].get(label + "_not_claimed", 0) + skipped
    log("%s: %d sessions validated (%d outside the claim) in %.1fs" % (label, total, skipped, time.time() - t0))
    if total and skipped > 0.8 * total:
        raise ToolError("vacuity: %d of %d sessions of %s are outside the claim" % (skipped, total, label))
    if len(timed) > 12:
        # many sessions ran into the time limit: repeat a few with a generous limit; if those still fail
        # the others are reported as they are (a hang of the tool is a violation, and repeating hundreds
        # of hanging sessions would take hours)
        probe, rest = timed[:6], timed[6:]
        before = len(ck.violations) + len(ck.known_hits)
        timed = probe
    else:
        rest, before = [], None
    if timed:
        work = tmpdir("retry_%s_%s" % (retry_kind, label))
        cpath = os.path.join(work, "cases.json")
        keys = {"dbg": ("prog", "script"), "repl": ("lines",), "cli": ("sub", "level", "fileKind", "file", "stdin", "kind", "bound", "verbose")}[retry_kind]
        cases = [{k: e[k] for k in keys} for e in timed]
        for c in cases:
            c["timeout_ms"] = 30000
        M.write_cases(cpath, cases)
        os.environ["HV_SLOW"] = "1"
        try:
            validate_sessions(ck, run_cli(retry_kind, cpath, "retry"), 1, describe, label + "-retry")
        finally:
            os.environ.pop("HV_SLOW", None)
        ck.cov["vacuity"][label + "_timeouts_retried"] = len(timed)
        if rest:
            if len(ck.violations) + len(ck.known_hits) > before:
                for e in rest:
                    ck.violation("%s %s" % (label, describe(e)), {"kind": e["ev"], "event": e, "expected": None})
            else:
                raise ToolError("%d sessions of %s timed out although repeated ones pass: the machine is too loaded to judge" % (len(rest), label))


def script_str(script):
    return " ".join(c[0] + (str(c[1]) if len(c) > 1 else "") for c in script)


def describe_dbg(e):
    why = "debugger panicked" if e.get("panicked") else ("debugger hung" if e.get("timeout") else "shown states / output / status differ")
    return "%s :: program `%s` script [%s]" % (why, M.prog_text(e["prog"]), script_str(e["script"])[:160])


def mc_dbg(ck, maxscript, progsel, dump=True):
    work = tmpdir("dbg_mc")
    cases = os.path.join(work, "cases.json")
    cfg = write_cfg("gen/MC_HyDebugger.cfg",
                    "SPECIFICATION Spec\nCONSTANTS\n  B = 256\n  RunBound = 90\n  MaxScript = %d\n  DumpOn = %s\n  ProgSel = %s\n"
                    "INVARIANT Coherent\nINVARIANT NeverStuck\nINVARIANT Dump\nPROPERTY RunStopsAtFirstBreak\nPROPERTY ExactlyOnce\nCHECK_DEADLOCK FALSE\n"
                    % (maxscript, "TRUE" if dump else "FALSE", progsel))
    n = [0]
    with open(cases, "w") as f:
        def take(t):
            if t[0] == "REPLAY":
                f.write(t[1] + "\n")
                n[0] += 1
        r = tlc("MC_HyDebugger", cfg, workers=16, timeout=2400, xss="512m", on_tuple=take)
    if r.error and "violated" in (r.error or ""):
        raise ToolError("HyDebugger violates its own invariant: %s\n%s" % (r.error, r.raw_tail[-2000:]))
    require_ok(r, "MC_HyDebugger")
    ck.add_tlc(r)
    ck.cov["vacuity"]["MC_HyDebugger_states"] = r.distinct
    ck.cov["vacuity"]["MC_HyDebugger_sessions"] = n[0]
    log("MC_HyDebugger: %d states, %d sessions, %.1fs" % (r.distinct, n[0], r.wall))
    return cases, n[0]


def out_soup(rng, n):
    """input-free programs that do write: destinations 1/2 allowed, stack 0 never selected or popped"""
    prog = M.rand_soup(rng, n, io=False)
    for c in prog:
        if c["k"] in (1, 2, 3, 4) and rng.random() < 0.35:
            c["d"] = rng.choice([1, 1, 2])
        if c["k"] == 0 and rng.random() < 0.5:
            c["h"], c["d"] = rng.choice([(5, 13), (6, 11), (7, 7), (8, 6), (3, 16), (10, 10), (9, 12)])
        if c["k"] == 5 and rng.random() < 0.1:
            c["d"] = rng.choice([1, 2])
    return prog


def rand_script(rng, plen, n):
    s = []
    for _ in range(n):
        r = rng.random()
        if r < 0.35:
            s.append(["n"])
        elif r < 0.5:
            s.append(["p"])
        elif r < 0.75:
            s.append(["s"])
        elif r < 0.82:
            s.append(["r"])
        elif r < 0.92:
            s.append(["b", rng.choice([0, 1, 2, 3, max(0, plen - 1), plen, plen + 1, rng.randint(0, plen + 3)])])
        elif r < 0.95:
            s.append(["bl"])
        else:
            s.append([rng.choice(["h", "x", ""])])
    return s


@register("C11")
def check_c11(pid, tier, seed, replay):
    ck = Check(pid, tier, seed, "model_checking")
    build_harness()
    ck.assumptions = [
        "oracle: HyDebugger.tla over HyMachine evaluated by TLC; transcripts are reduced to state displays, output chunks and exit status (prompts, listings and message wording are not compared)",
        "programs that read input, write control characters, hit an encoding error or run without coming back are outside the claim and skipped by the specification",
        "the Ctrl-C handler and colour output are out of scope",
    ]
    if replay:
        ck.write_evidence = False
        pl = json.load(open(replay))["payload"]
        work = tmpdir("c11_replay")
        cpath = os.path.join(work, "cases.json")
        M.write_cases(cpath, [{"prog": pl["event"]["prog"], "script": pl["event"]["script"]}])
        validate_sessions(ck, run_cli("dbg", cpath, "replay"), 1, describe_dbg, "replay")
        return ck.finish()
    quick = tier == "quick"
    rng = random.Random(seed)
    cases, n = mc_dbg(ck, 3 if quick else 4, "{1, 2, 3, 4, 5, 6, 7, 8}")
    all_lines = [l for l in open(cases).read().split("\n") if l.strip()]
    rng.shuffle(all_lines)
    if quick and len(all_lines) > 20000:
        ck.cov["vacuity"]["R_sampled_of"] = [20000, len(all_lines)]
        all_lines = all_lines[:20000]
    for k in range(0, len(all_lines), 5000):
        part = os.path.join(os.path.dirname(cases), "part.json")
        open(part, "w").write("\n".join(all_lines[k:k + 5000]) + "\n")
        validate_sessions(ck, run_cli("dbg", part, "R"), 14, describe_dbg, "R", "dbg")
        if ck.enough():
            return ck.finish()
    ck.cov["exhaustive"] = "R_sampled_of" not in ck.cov["vacuity"]
    # deeper on the two shortest looping programs (a back edge to the first command): every script of
    # 4 and 5 commands over next / previous / state / run
    import itertools
    P7 = [M.C(0, 1, 3, M.H(5)), M.C(1, 1, 3, M.H(5))]
    P8 = [M.C(0, 71, 1, M.H(2)), M.C(1, 1, 1), M.C(0, 72, 1, M.H(2)), M.C(1, 1, 1, M.H(13))]
    deep = [{"prog": p, "script": [[c] for c in sc]} for p in (P7, P8) for k in ((4,) if (quick and p is P8) else (4, 5))
            for sc in itertools.product("npsr", repeat=k)]
    part = os.path.join(os.path.dirname(cases), "deep.json")
    M.write_cases(part, deep)
    validate_sessions(ck, run_cli("dbg", part, "R-deep"), 14, describe_dbg, "R-deep", "dbg")
    if ck.enough():
        return ck.finish()
    with open(cases) as f:
        f.readline()
        c = json.loads(f.readline())
        ck.sample({"program": M.prog_text(c["prog"]), "script": script_str(c["script"])})
    tc = []
    fixed = [M.one_to_n(8), M.one_to_n(16), M.example_prog("hello_world"), M.example_prog("1_to_8")]
    for i in range(120 if quick else 2500):
        p = rng.choice(fixed) if rng.random() < 0.25 else out_soup(rng, rng.randint(1, 14))
        tc.append({"prog": p, "script": rand_script(rng, len(p), rng.randint(5, 60) if rng.random() < 0.7 else rng.randint(60, 300))})
    # programs of exactly 9..12 and 99..101 commands: index widths change in the listings
    for plen in (9, 10, 11, 12, 99, 100, 101):
        p = out_soup(rng, plen)
        tc.append({"prog": p, "script": rand_script(rng, plen, 40) + [["b", plen - 1], ["bl"], ["r"], ["bl"], ["s"]]})
    for ws in (32, 0xA0, 0x3000):
        p = M.print_cps([65]) + M.print_cps([ws]) + M.print_cps([ws], 2) + M.print_cps([66, ws]) + M.print_cps([ws, ws], 2)
        tc.append({"prog": p, "script": [["n"]] * len(p) })
        tc.append({"prog": p, "script": [["b", len(M.print_cps([65]) + M.print_cps([ws]))], ["r"], ["s"], ["r"], ["s"]]})
    # a lot of output within one step / one run segment (buffer sizes), multi-byte characters throughout
    for copies, stream in ((341, 1), (342, 2)):
        p = M.print_cps([65]) + M.push_value(0xAC00) + [M.C(5, copies, stream)]
        tc.append({"prog": p, "script": [["n"]] * len(p) + [["s"]]})
        tc.append({"prog": p, "script": [["r"], ["s"]]})
    # long histories: hundreds of snapshots taken by `run` (and by `next`), then more `previous` than any
    # bounded history would keep, then the state; and the same again after going forward once more
    for prog, fwd, k in ((P7, "r", 160), (P7, "n", 330), (P8, "r", 90), (P7, "r", 300 if quick else 700), (P8, "r", 150 if quick else 400)):
        back = (2 * k if fwd == "r" else k) + 7
        tc.append({"prog": prog, "script": [[fwd]] * k + [["s"]] + [["p"]] * back + [["s"]] + [["n"]] * 3 + [["s"], ["r"], ["p"], ["s"]]})
        tc.append({"prog": prog, "script": [[fwd]] * k + [["p"]] * (back // 2) + [["s"], ["r"], ["s"]] + [["p"]] * 9 + [["s"]]})
    work = tmpdir("c11_T")
    cpath = os.path.join(work, "cases.json")
    M.write_cases(cpath, tc)
    validate_sessions(ck, run_cli("dbg", cpath, "T"), 14, describe_dbg, "T", "dbg")
    ck.sample({"program": M.prog_text(tc[5]["prog"]), "script": script_str(tc[5]["script"])[:300]})
    ck.cov["rule"] = "R: every command sequence up to the bound on eight programs (quick tier: script length 3, thorough: 4) and every script of 4-5 commands over n/p/s/r on two looping programs; T: seeded programs x scripts of 5-300 commands, and histories of 300+ snapshots undone completely"
    return ck.finish()


# ------------------------------------------------------------------------------ C12
def describe_repl(e):
    why = "interpreter panicked" if e.get("panicked") else ("session hung" if e.get("timeout") else "per-line output / status differ")
    lines = " | ".join(M.prog_text(l["cmds"]) if l["kind"] == "code" else "<%s>" % l["kind"] for l in e["lines"])
    return "%s :: lines %s" % (why, lines[:300])


def mc_repl(ck, slice_, maxlen, steps):
    work = tmpdir("repl_mc_" + slice_)
    cases = os.path.join(work, "cases.json")
    cfg = write_cfg("gen/MC_HyRepl_%s.cfg" % slice_,
                    'SPECIFICATION Spec\nCONSTANTS\n  B = 256\n  Slice = "%s"\n  MaxLen = %d\n  MaxSteps = %d\n  LineBound = %d\n  DumpOn = TRUE\n'
                    "INVARIANT EveryCutSameAsWhole\nINVARIANT ClearResets\nINVARIANT Dump\nCHECK_DEADLOCK FALSE\n" % (slice_, maxlen, steps, steps))
    n = [0]
    with open(cases, "w") as f:
        def take(t):
            if t[0] == "REPLAY":
                f.write(t[1] + "\n")
                n[0] += 1
        r = tlc("MC_HyRepl", cfg, workers=16, timeout=2400, xss="512m", on_tuple=take)
    if r.error and "violated" in (r.error or ""):
        raise ToolError("HyRepl: line-by-line entry differs from the whole run in the specification itself: %s\n%s" % (r.error, r.raw_tail[-2000:]))
    require_ok(r, "MC_HyRepl")
    ck.add_tlc(r)
    ck.cov["vacuity"]["MC_HyRepl_%s_programs" % slice_] = r.distinct
    ck.cov["vacuity"]["MC_HyRepl_%s_sessions" % slice_] = n[0]
    log("MC_HyRepl %s: %d programs, %d sessions, %.1fs" % (slice_, r.distinct, n[0], r.wall))
    return cases, n[0]


@register("C12")
def check_c12(pid, tier, seed, replay):
    ck = Check(pid, tier, seed, "model_checking")
    build_harness()
    ck.assumptions = [
        "oracle: HyRepl.tla over HyMachine evaluated by TLC; TLC checks in-spec that every cut of every program of the slices gives the whole-run output",
        "transcripts are cut at the prompts; only output chunks per entered line and the exit status are compared",
        "programs that read input (they would consume the following source lines), write control characters or '>' , hit an encoding error or hang are outside the claim and skipped by the specification",
    ]
    if replay:
        ck.write_evidence = False
        pl = json.load(open(replay))["payload"]
        work = tmpdir("c12_replay")
        cpath = os.path.join(work, "cases.json")
        M.write_cases(cpath, [{"lines": pl["event"]["lines"]}])
        validate_sessions(ck, run_cli("repl", cpath, "replay"), 1, describe_repl, "replay")
        return ck.finish()
    quick = tier == "quick"
    rng = random.Random(seed)
    for slice_, ml, steps in ([("opt2", 3, 14)] if quick else [("opt2", 3, 16), ("control", 3, 14), ("opt1", 3, 12)]):
        cases, n = mc_repl(ck, slice_, ml, steps)
        lines = M.sample_lines(cases, 6000 if quick else 300000, rng)
        if len(lines) == n:
            ck.cov["exhaustive"] = True
        sub = os.path.join(os.path.dirname(cases), "pick.json")
        open(sub, "w").write("\n".join(lines) + "\n")
        validate_sessions(ck, run_cli("repl", sub, "R" + slice_), 14, describe_repl, "R-" + slice_, "repl")
        if ck.enough():
            return ck.finish()
        ck.sample(describe_repl(json.loads(lines[1]) | {"panicked": False}).split(":: ", 1)[1])
    tc = []
    fixed = [M.one_to_n(8), M.example_prog("hello_world"), M.example_prog("1_to_8"),
             [M.C(0, 65, 1), M.C(1, 1, 1), M.C(0, 70, 1), M.C(1, 1, 2), M.C(5, 1, 1), M.C(1, 1, 3)],
             [M.C(0, 65, 1), M.C(0, 70, 1), M.C(1, 1, 2), M.C(1, 1, 1), M.C(5, 1, 2), M.C(1, 1, 3)]]
    for i in range(150 if quick else 3000):
        p = rng.choice(fixed) if rng.random() < 0.3 else out_soup(rng, rng.randint(1, 16))
        # cut at command boundaries
        cuts = sorted(rng.sample(range(1, len(p)), min(len(p) - 1, rng.randint(0, 5)))) if len(p) > 1 else []
        lines, a = [], 0
        for b in cuts + [len(p)]:
            lines.append({"kind": "code", "cmds": p[a:b]})
            a = b
            if rng.random() < 0.15:
                lines.append({"kind": rng.choice(["help", "blank", "blank"])})
        if rng.random() < 0.3:
            q = out_soup(rng, rng.randint(1, 5))
            lines = [{"kind": "code", "cmds": q}, {"kind": "clear"}] + lines
        tc.append({"lines": lines})
    # jumps, labels and return jumps before and after `clear`: everything a session accumulates
    # (labels, last jump source, selected stack, command log) must be gone afterwards
    for i in range(60 if quick else 1500):
        a = M.retjump_soup(rng, rng.randint(5, 10))
        b = M.retjump_soup(rng, rng.randint(5, 10))
        if rng.random() < 0.5:
            b = [M.C(0, 1, 0), M.C(0, 70, 1), M.C(1, 1, 1), M.C(1, 1, 3, [63, 113, 0])] + b      # an early conditional return
        k = rng.randint(1, len(a))
        tc.append({"lines": [{"kind": "code", "cmds": a[:k]}, {"kind": "code", "cmds": a[k:]}, {"kind": "clear"},
                             {"kind": "code", "cmds": b}] if k < len(a) else
                            [{"kind": "code", "cmds": a}, {"kind": "clear"}, {"kind": "code", "cmds": b}]})
    # output chunks that consist of white space only (shown exactly once like any other character)
    for ws in (32, 0xA0, 0x3000, 0x2003):
        for stream in (1, 2):
            tc.append({"lines": [{"kind": "code", "cmds": M.print_cps([65])}, {"kind": "code", "cmds": M.print_cps([ws], stream)},
                                 {"kind": "code", "cmds": M.print_cps([ws, ws]) + M.print_cps([ws], 2)}, {"kind": "code", "cmds": M.print_cps([66, ws])}]})
    for copies, stream in ((341, 1), (342, 2)):
        p = M.push_value(0xAC00) + [M.C(5, copies, stream)]
        tc.append({"lines": [{"kind": "code", "cmds": M.print_cps([65])}, {"kind": "code", "cmds": p}]})
    work = tmpdir("c12_T")
    cpath = os.path.join(work, "cases.json")
    M.write_cases(cpath, tc)
    validate_sessions(ck, run_cli("repl", cpath, "T"), 14, describe_repl, "T", "repl")
    ck.cov["rule"] = "R: every cut of every program of the slices (exhaustive or seeded sample, see vacuity); T: seeded programs x cuts x clear/help/blank lines"
    return ck.finish()


# ------------------------------------------------------------------------------ C13
def describe_cli(e):
    why = "panicked" if e.get("panicked") else "ending outside the specification (status %s, diagnostic %s, timeout %s)" % (e.get("code"), e.get("diag"), e.get("timeout"))
    f = bytes(e.get("file", [])[:60])
    return "`hyeong %s%s` %s :: fileKind=%s file=%r stdin=%r" % (e["sub"], " -O%s" % e["level"] if e["sub"] == "run" else "", why, e["fileKind"], f, bytes(e.get("stdin", [])[:40]))


def mc_cli(ck, maxlen):
    cfg = write_cfg("gen/MC_HyCli.cfg", "SPECIFICATION Spec\nCONSTANTS\n  B = 256\n  MaxLen = %d\n"
                    "  Bytes = {65, 10, 195, 169, 255, 237, 160, 128, 224, 240, 144, 244, 143, 191, 239, 192}\n"
                    "INVARIANT DecodeSound\nINVARIANT DecodeComplete\nINVARIANT PlanConsistent\nCHECK_DEADLOCK FALSE\n" % maxlen)
    r = tlc("MC_HyCli", cfg, workers=16, timeout=1800, xss="512m")
    if r.error and "violated" in (r.error or ""):
        raise ToolError("HyCli's UTF-8 model is wrong: %s\n%s" % (r.error, r.raw_tail[-1500:]))
    require_ok(r, "MC_HyCli")
    ck.add_tlc(r)
    ck.cov["vacuity"]["MC_HyCli_bytestrings"] = r.distinct


def corrupt(rng, b):
    b = bytearray(b)
    bad = rng.choice([b"\xff", b"\xc3", b"\xed\xa0\x80", b"\xf5\x80\x80\x80", b"\xc0\x80", b"\xe0\x80\x80", b"\x80", b"\xf4\x90\x80\x80"])
    pos = rng.randint(0, len(b))
    return bytes(b[:pos] + bad + b[pos:])


def scenarios(rng, quick):
    C, H = M.C, M.H
    kinds = {
        "ends": [C(0, 72, 1), C(1, 1, 1), C(0, 105, 1), C(1, 1, 2)],
        "exit0": [C(0, 72, 1), C(1, 1, 1), C(5, 1, 1), C(1, 1, 3), C(0, 33, 1)],
        "exit1": [C(0, 72, 1), C(1, 1, 2), C(5, 1, 2), C(1, 1, 3)],
        "unencodable": [C(0, 72, 1), C(1, 1, 1), C(0, 1400, 40), C(1, 1, 1), C(0, 73, 1)],
        "reads": [C(5, 1, 0), C(1, 1, 1), C(1, 1, 1), C(1, 1, 2), C(1, 1, 1)],
        "readloop": M.CAT_LOOP,
        "loops": M.infinite_a(),
        "count": M.one_to_n(8),
        "astral": M.print_cps([0x10000, 0x41]) + M.print_cps([0x1F600, 0x80], 2) + M.print_cps([0x10FFFF]),
        "astral-then-read": M.print_cps([0x10FFFF], 2) + [C(5, 1, 0), C(1, 1, 1)],
    }
    texts = {k: M.prog_text(v).encode() for k, v in kinds.items()}
    stdins = [b"", b"abc\n", b"x", "한글\n".encode(), b"ok\n\xff\xfe\n", b"\xff", b"ab\xc3", b"a\nb\n\xed\xa0\x80\nc", b"\n\n", bytes(range(1, 128)) + b"\n"]
    out = []
    n_each = 1 if quick else 6
    for sub in ("run", "check"):
        for level in ((0, 1, 2) if sub == "run" else (0,)):
            for pk, txt in texts.items():
                for _ in range(n_each):
                    si = rng.choice(stdins)
                    out.append({"sub": sub, "level": level, "fileKind": "ok", "file": list(txt), "stdin": list(si), "kind": pk})
                    out.append({"sub": sub, "level": level, "fileKind": "ok", "file": list(txt), "stdin": list(corrupt(rng, si)), "kind": pk})
                # the program text itself not UTF-8
                out.append({"sub": sub, "level": level, "fileKind": "ok", "file": list(corrupt(rng, txt)), "stdin": list(rng.choice(stdins)), "kind": pk + "-corrupt"})
            for fk in ("missing", "wrongExt", "noExt", "directory"):
                out.append({"sub": sub, "level": level, "fileKind": fk, "file": list(texts["ends"]), "stdin": [], "kind": fk})
            # empty file, only noise, byte-level fuzz
            for content in (b"", b"hello, world! ?? !! \xe2\x99\xa5", "가나다 ♥♡ .. …".encode(), b"\x00\x00", "혀".encode(), "혀엉".encode() * 3):
                out.append({"sub": sub, "level": level, "fileKind": "ok", "file": list(content), "stdin": list(rng.choice(stdins)), "kind": "noise"})
            # a file that stops in the middle of its last character (an incomplete, not an invalid, sequence)
            whole3, whole4 = "형. 항.\n혀엉".encode(), "형. 항. 형.💕".encode()
            for content in (b"\xed", b"\xf0\x9f", whole3[:-1], whole3[:-2], whole4[:-1], whole4[:-2], whole4[:-3]):
                out.append({"sub": sub, "level": level, "fileKind": "ok", "file": list(content), "stdin": list(rng.choice(stdins)), "kind": "cut-file"})
            for _ in range(20 if quick else 400):
                n = rng.randint(0, 40)
                alphabet = ["형", "항", "핫", "흣", "흡", "흑", "혀", "하", "흐", "엉", "앙", "앗", "읏", "읍", "윽", ".", "…", "?", "!", "♥", "💕", "♡", " ", "\n", "x"]
                txt = "".join(rng.choice(alphabet) for _ in range(n)).encode()
                if rng.random() < 0.3:
                    txt = corrupt(rng, txt)
                if rng.random() < 0.2:
                    txt = bytes(rng.randrange(256) for _ in range(rng.randint(1, 30)))
                si = rng.choice(stdins) if rng.random() < 0.7 else bytes(rng.randrange(256) for _ in range(rng.randint(0, 20)))
                out.append({"sub": sub, "level": level, "fileKind": "ok", "file": list(txt), "stdin": list(si), "kind": "fuzz"})
    # `check` listings of programs whose command count crosses a decimal width, and deep area nesting
    for ncmd in (1, 9, 10, 11, 12, 99, 100, 101, 102, 1000, 1001):
        txt = ("형. " * ncmd).encode()
        out.append({"sub": "check", "level": 0, "fileKind": "ok", "file": list(txt), "stdin": [], "kind": "width"})
        if ncmd <= 102:
            out.append({"sub": "run", "level": 2, "fileKind": "ok", "file": list(txt), "stdin": [], "kind": "width"})
    # listings whose line and column numbers have different decimal widths (the columns of `check` are
    # padded to the widest): two or three commands placed at (line, column) positions of 1-4 digits
    pos = [(ln, col) for ln in (1, 9, 10, 100, 1000) for col in (0, 9, 10, 100, 1000)]
    pairs = [(a, b) for a in pos for b in pos if a[0] < b[0]]
    for a, b in (rng.sample(pairs, 36) if quick else pairs):
        c = rng.choice(pos)
        places = sorted(set([a, b] + ([c] if c[0] not in (a[0], b[0]) and rng.random() < 0.4 else [])))
        lines, cur = [], 1
        for ln, col in places:
            lines += [""] * (ln - cur)
            lines.append(" " * col + "형.")
            cur = ln + 1
        txt = "\n".join(lines).encode()
        out.append({"sub": "check", "level": 0, "fileKind": "ok", "file": list(txt), "stdin": [], "kind": "tall"})
        if rng.random() < 0.25:
            out.append({"sub": "run", "level": rng.choice([0, 1, 2]), "fileKind": "ok", "file": list(txt), "stdin": [], "kind": "tall"})
    for depth in (100, 1000, 4096):
        txt = ("형" + "?♥!" * (depth // 2)).encode()
        out.append({"sub": "check", "level": 0, "fileKind": "ok", "file": list(txt), "stdin": [], "kind": "deep"})
        out.append({"sub": "run", "level": 2, "fileKind": "ok", "file": list(txt), "stdin": [], "kind": "deep"})
    for i, o in enumerate(out):
        o["bound"] = 600
        o["timeout_ms"] = 1500
        o["verbose"] = i % 3 == 0        # the tool's log is modelled too (HyCli!Prelude)
    return out


@register("C13")
def check_c13(pid, tier, seed, replay):
    ck = Check(pid, tier, seed, "fault_enumeration")
    build_harness()
    ck.assumptions = [
        "oracle: HyCli.tla (file kind -> UTF-8 decoding -> HyGrammar -> HyMachine with line-wise input decoding) evaluated by TLC; its UTF-8 model is model-checked against the encoder on all short byte strings",
        "OS-level faults (full disk, closed stdout) are not injected; area nesting is bounded at 4096 as in C04",
    ]
    if replay:
        ck.write_evidence = False
        pl = json.load(open(replay))["payload"]
        work = tmpdir("c13_replay")
        cpath = os.path.join(work, "cases.json")
        e = pl["event"]
        M.write_cases(cpath, [{k: e[k] for k in ("sub", "level", "fileKind", "file", "stdin", "kind", "bound", "timeout_ms", "verbose") if k in e}])
        validate_sessions(ck, run_cli("cli", cpath, "replay"), 1, describe_cli, "replay")
        return ck.finish()
    quick = tier == "quick"
    rng = random.Random(seed)
    mc_cli(ck, 3 if quick else 4)
    sc = scenarios(rng, quick)
    work = tmpdir("c13")
    cpath = os.path.join(work, "cases.json")
    M.write_cases(cpath, sc)
    validate_sessions(ck, run_cli("cli", cpath, "S"), 14, describe_cli, "scenarios", "cli")
    kinds = sorted(set((s["sub"], s["level"], s["fileKind"], s["kind"]) for s in sc))
    ck.cov["evaluations"] = len(sc)
    ck.cov["distinct_nontrivial"] = len(kinds)
    ck.cov["rule"] = ("scenario = sub-command x level x file kind x program kind x stdin class, instantiated with concrete bytes "
                      "(random invalid UTF-8 at random offsets, fuzzed files); distinct = distinct scenario classes")
    ck.sample({"sub": sc[3]["sub"], "level": sc[3]["level"], "file": bytes(sc[3]["file"]).decode("utf-8", "replace"), "stdin": repr(bytes(sc[3]["stdin"]))})
    ck.sample({"sub": sc[-1]["sub"], "kind": sc[-1]["kind"], "file_bytes": len(sc[-1]["file"])})
    return ck.finish()
