"""property id -> check function(pid, tier, seed, replay_path) -> exit status"""
REGISTRY = {}


def register(*pids):
    def deco(fn):
        for p in pids:
            REGISTRY[p] = fn
        return fn
    return deco


from . import num, parse, machine, opt, compilec, tools  # noqa: E402,F401
