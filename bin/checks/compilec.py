"""C03: the Rust-source compiler (HyCompile) - DESIGN 6."""
import json, os, random
from hvlib import *
from . import register
from . import machine as M
from .opt import mc_opt, ALL_GUARDS


def mc_compile(ck, slice_, maxlen, maxsteps, budget, invs, expect_violation=None, dump=False, maxblocks=4):
    work = tmpdir("comp_%s_%s" % (ck.pid, slice_))
    cases = os.path.join(work, "cases.json")
    cfg = write_cfg("gen/MC_HyCompile_%s_%s.cfg" % (slice_, expect_violation or "main"),
                    'SPECIFICATION Spec\nCONSTANTS\n  B = 256\n  Slice = "%s"\n  MaxLen = %d\n  MaxSteps = %d\n  MaxBlocks = %d\n  Budget = %d\n  Guards = %s\n  DumpOn = %s\n%s%sCHECK_DEADLOCK FALSE\n'
                    % (slice_, maxlen, maxsteps, maxblocks, budget, ALL_GUARDS, "TRUE" if dump else "FALSE",
                       "".join("INVARIANT %s\n" % i for i in invs), "INVARIANT Dump\n" if dump else ""))
    n = [0]
    with open(cases, "w") as f:
        def take(t):
            if t[0] == "REPLAY":
                f.write(t[1] + "\n")
                n[0] += 1
        r = tlc("MC_HyCompile", cfg, workers=16, timeout=2400, xss="512m", on_tuple=take)
    if expect_violation:
        if not (r.error and expect_violation in r.error and "violated" in r.error):
            raise ToolError("vacuity: expected %s to be violated inside the bound (slice %s), TLC said: %s" % (expect_violation, slice_, r.error))
        ck.cov["vacuity"]["witness_%s_%s" % (slice_, expect_violation)] = "reached"
        return None, 0
    if r.error and "violated" in (r.error or ""):
        raise ToolError("HyCompile does not refine HyMachine in the specification itself (%s): %s\n%s" % (slice_, r.error, r.raw_tail[-2500:]))
    require_ok(r, "MC_HyCompile " + slice_)
    log("MC_HyCompile %s: %d programs x inputs, %.1fs" % (slice_, r.distinct, r.wall))
    ck.add_tlc(r)
    ck.cov["vacuity"]["MC_HyCompile_%s_states" % slice_] = r.distinct
    return cases, n[0]


def mechanism_binding_compile(ck, cases):
    """binding diagnostics (never a verdict): block count, start block, restored labels and pending return-jump
    target read off the emitted source, against HyCompile evaluated with the code's own budget"""
    import subprocess
    work = tmpdir("compdump")
    cpath = os.path.join(work, "cases.json")
    M.write_cases(cpath, [{"prog": c["prog"]} for c in cases])
    out = os.path.join(work, "dump.ndjson")
    try:
        p = subprocess.run([M.HVEXEC, "compdump", "--in", cpath, "--out", out], stdin=subprocess.DEVNULL, timeout=300)
        if p.returncode != 0:
            raise RuntimeError("status %s" % p.returncode)
    except Exception as ex:
        ck.cov["binding_drift"].append("mechanism dump of build_source() not available (%s)" % ex)
        return
    r = tlc("Trace_HyCompile", "Trace_HyCompile.cfg", env={"TRACE": out}, workers=1, timeout=1800, xss="1g", xmx="4g")
    n = sum(1 for l in open(out) if l.strip())
    end = [t for t in r.tuples if t[0] == "TRACE-END"]
    if not end or end[0][2] != n:
        ck.cov["binding_drift"].append("mechanism trace not consumed: %s" % (r.error,))
        return
    ck.add_tlc(r)
    drifts = [t for t in r.tuples if t[0] == "DRIFT"]
    for t in drifts[:10]:
        ck.cov["binding_drift"].append("build_source level %s: %s :: program %s" % (t[2], t[3], M.prog_text(json.loads(t[4]))[:200]))
    ck.cov["vacuity"]["mechanism_dumps_compared"] = n
    ck.cov["vacuity"]["mechanism_drifts"] = len(drifts)
    log("mechanism binding: %d dumps compared with HyCompile, %d drift(s)" % (n, len(drifts)))


def classify_c03(e, run, exp):
    if run is None:
        return None
    how = run.get("how", "")
    if not how.startswith("compiled-"):
        return None
    st = run.get("stage")
    if st == "rustc":
        return "%s: emitted source rejected by rustc: %s" % (how, str(run.get("stderr", ""))[:160].replace("\n", " "))
    if st == "emit":
        return "%s: build_source/optimize crashed or hung" % how
    return "%s: stdout/stderr/ending differ from the interpreted reference" % how


def families(rng, quick):
    C, H = M.C, M.H
    P = []
    # D7: pre-executed output containing { } \ " and non-ASCII
    for ch in ("{", "}", "\\", '"', "{}", "한", "\n"):
        prog = [C(0, ord(c), 1) for c in ch] + [C(1, 1, 1) for _ in ch]
        # push in reverse so they print in order
        prog = [C(0, ord(c), 1) for c in reversed(ch)] + [C(1, 1, 1) for _ in ch] + [C(5, 1, 0), C(1, 1, 1)]
        P.append((prog, "z"))
        P.append(([C(0, ord(ch[0]), 1), C(1, 1, 2), C(5, 1, 0), C(1, 1, 1)], "z"))
    # D8: last pre-executed command carries an area / nothing pre-executed
    P.append(([C(5, 1, 0), C(0, 1, 1, H(2)), C(1, 1, 1), C(0, 65, 1), C(5, 1, 3), C(1, 1, 1)], "ab"))
    P.append(([C(0, 65, 1, H(2)), C(5, 1, 0), C(1, 1, 3), C(5, 1, 3), C(1, 2, 1)], "b"))
    P.append(([C(0, 65, 1), C(1, 1, 1, H(2)), C(5, 1, 0), C(1, 1, 1)], "q"))
    # D9: pending return-jump target left behind by pre-execution
    P.append(([C(0, 1, 1), C(1, 1, 3, H(4)), C(0, 1, 1), C(1, 2, 3), C(5, 1, 3, [33, 0, 104]), C(5, 2, 0), C(1, 1, 1), C(5, 1, 3), C(0, 1, 1, H(13))], ""))
    P.append(([C(0, 1, 1), C(1, 1, 3, H(4)), C(0, 1, 1), C(1, 2, 3), C(5, 1, 3, [33, 0, 104]), C(5, 2, 0), C(1, 1, 1), C(5, 1, 3), C(0, 1, 1, H(13))], "ab\n"))
    # several labels registered by the prefix in an order different from their id order, area-less
    # commands in between (block index != command index), residual jumps back to one of them
    P.append(([C(0, 1, 1), C(0, 1, 0), C(0, 1, 3, H(5)), C(1, 1, 3, H(2)), C(1, 2, 3), C(5, 1, 0), C(5, 1, 3), C(1, 1, 3, [33, 105, 0]), C(3, 1, 1)], ""))
    for v in range(4 if quick else 60):
        hearts = rng.sample(range(2, 13), rng.randint(2, 5))
        prog = []
        for j, hh in enumerate(hearts):
            for _ in range(rng.randint(1, 3)):
                prog.append(C(0, 65 + j, 1))
            prog.append(C(1, 1, 1, H(hh)))
            for _ in range(rng.randint(0, 2)):
                prog.append(C(0, 97 + j, 1))
        prog += [C(5, 1, 0), C(1, 1, 3), C(5, 1, 3), C(0, 90, 1), C(1, 1, 1, H(rng.choice(hearts)))]
        P.append((prog, rng.choice(["", "!", "?\n"])))
    P.append(([C(0, 1, 1), C(1, 1, 3, H(4)), C(0, 1, 1), C(1, 2, 3), C(5, 1, 3, [33, 0, 104]), C(5, 1, 0), C(1, 1, 3), C(5, 1, 3), C(0, 1, 1, H(13)), C(1, 1, 1)], "k"))
    # prefix leaves fractions, negatives and NaN on stacks; residual reads, then prints them
    P.append(([C(0, 1, 2), C(4, 1, 4), C(0, 1, 3), C(3, 1, 4), C(0, 1, 0), C(4, 1, 4), C(5, 1, 0), C(1, 1, 4), C(5, 1, 3),
               C(1, 1, 1), C(1, 1, 1), C(1, 1, 1), C(1, 1, 1)], "x"))
    P.append(([C(0, 1, 3), C(0, 1, 7), C(4, 1, 5), C(2, 2, 3), C(3, 1, 6), C(5, 1, 0), C(1, 1, 9), C(5, 1, 3), C(1, 1, 1), C(5, 1, 5), C(1, 1, 1), C(5, 1, 6), C(1, 1, 1)], "y"))
    # jumps from the residual into pre-executed blocks and back
    P.append(([C(0, 65, 1, H(2)), C(1, 1, 1), C(5, 1, 0), C(1, 1, 3, [63, 0, 102]), C(5, 1, 3), C(0, 65, 1, H(2))], "\x01"))
    P.append((M.one_to_n(8), ""))
    P.append((M.CAT_LOOP, "abc\n"))
    # dispatch-tree shapes: 1..40 area-carrying commands
    sizes = [1, 2, 3, 4, 5, 7, 8, 9, 16, 17, 31, 33, 40] if quick else list(range(1, 41))
    for n in sizes:
        prog = []
        for i in range(n):
            prog.append(C(0, 65 + (i % 26), 1))
            prog.append(C(1, 1, 1, H(2 + (i % 11))))       # distinct (count, heart) -> no jump, just a block
        P.append((prog, ""))
        # with a read first so that nothing is pre-executed at level 2
        P.append(([C(5, 1, 0), C(1, 1, 3), C(5, 1, 3)] + prog, "w"))
    # run-time support of the emitted program (push / pop / stdin refill / NaN rule) on long straight-line programs
    for v in range(5 if quick else 60):
        prog = M.prelude_stress(rng, 150)
        for inp in ("", M.PRELUDE_INPUT):
            P.append((prog, inp))
    # every prefix/residual split point of a fixed 12-command program
    base = [C(0, 72, 1), C(1, 1, 1), C(0, 1, 2), C(4, 1, 4), C(0, 105, 1, H(2)), C(1, 1, 1), C(0, 1, 3), C(3, 1, 4), C(0, 33, 1), C(1, 1, 1, H(4)),
            C(0, 10, 1), C(1, 1, 1)]
    for i in range(len(base) + 1):
        P.append((base[:i] + [C(5, 1, 0), C(1, 1, 4), C(5, 1, 3)] + base[i:], "r"))
    return [{"prog": p, "input": M.cps(i)} for p, i in P]


@register("C03")
def check_c03(pid, tier, seed, replay):
    ck = Check(pid, tier, seed, "translation_validation")
    build_harness()
    ck.assumptions = [
        "per-program translation validation: build_source -> rustc -> executable, observed on the supplied stdin texts and validated against HyMachine's reference run; rustc itself is trusted",
        "HyCompile.tla (block layout, block machine, restored pre-state, dispatch tree) is model-checked equivalent to HyMachine on the bounded slices; the real emitted text is bound to it behaviourally",
        "if the level-2 optimiser reports an encoding error while building and the reference ends in the same error, the case agrees",
    ]
    if replay:
        ck.write_evidence = False
        return M.do_replay_machine(ck, replay, classify=classify_c03)
    quick = tier == "quick"
    rng = random.Random(seed)
    progs = 0
    plan = [("opt2", 3, 14, 2, 150), ("ret", 5, 18, 3, 80)] if quick else [("opt2", 3, 16, 2, 8000), ("ret", 6, 22, 3, 8000), ("io", 2, 10, 2, 4000), ("control", 3, 14, 2, 8000)]
    for slice_, ml, steps, budget, cap in plan:
        cases, n = mc_compile(ck, slice_, ml, steps, budget, ("Compiled0", "Compiled1", "Compiled2", "Alone", "Dispatch"), dump=True,
                              maxblocks=64 if slice_ == "opt2" else 2)
        all_lines = [l for l in open(cases).read().split("\n") if l.strip()]
        ending = [l for l in all_lines if '"ending":"running"' not in l]
        looping = [l for l in all_lines if '"ending":"running"' in l]
        pick = M.sample_lines_list(ending, cap, rng) + M.sample_lines_list(looping, max(10, cap // 20), rng)
        sub = os.path.join(os.path.dirname(cases), "pick.json")
        open(sub, "w").write("\n".join(pick) + "\n")
        obs = M.run_obs(ck, sub, "c03_" + slice_, levels="", clevels="0,1,2", bound=steps + 10, timeout_ms=400)
        M.validate_traces(ck, obs, 14, classify_c03, "R-%s" % slice_)
        progs += len(pick)
        if ck.enough():
            ck.cov["programs"] = progs * 3
            ck.cov["disagreements_checked"] = progs * 3
            return ck.finish()
        ck.sample(M.prog_text(json.loads(pick[0])["prog"]))
    mc_compile(ck, "opt2", 3, 14, 2, ("Reach_JumpBackIntoPrefix",), expect_violation="Reach_JumpBackIntoPrefix")
    mc_compile(ck, "ret", 6, 20, 3, ("Reach_PendingLast",), expect_violation="Reach_PendingLast")
    tc = families(rng, quick) + M.gen_cases(rng, 45 if quick else 2500)
    work = tmpdir("c03_T")
    cpath = os.path.join(work, "cases.json")
    M.write_cases(cpath, tc)
    obs = M.run_obs(ck, cpath, "c03_T", levels="", clevels="0,1,2", bound=1100, timeout_ms=1000)
    M.validate_traces(ck, obs, 14, classify_c03, "T")
    progs += len(tc)
    # label / conditional jump / return-jump stress (several return jumps after one label jump, returns
    # with nothing pending, jumps to a label from its own command ...), levels 0 and 2
    rj = [{"prog": M.retjump_soup(rng, rng.randint(6, 14)), "input": []} for _ in range(90 if quick else 2500)]
    rj += [{"prog": M.fwdjump_family(rng), "input": []} for _ in range(30 if quick else 500)]
    rj += [{"prog": M.operand_family(rng), "input": []} for _ in range(30 if quick else 800)]
    rj += [{"prog": M.selfret_family(rng), "input": []} for _ in range(12 if quick else 300)]
    rj += [{"prog": M.twolabel_family(rng), "input": []} for _ in range(16 if quick else 400)]
    rj += [{"prog": M.lastswitch_family(rng), "input": []} for _ in range(8 if quick else 200)]
    rj += [{"prog": [M.C(5, 1, 0), M.C(5, 1, 3)] + c["prog"], "input": M.cps("a")} for c in rj[:20 if quick else 500]]
    cpath2 = os.path.join(work, "cases_rj.json")
    M.write_cases(cpath2, rj)
    obs = M.run_obs(ck, cpath2, "c03_RJ", levels="", clevels="0,2", bound=400, timeout_ms=400)
    M.validate_traces(ck, obs, 14, classify_c03, "T-retjump")
    progs += len(rj)
    mechanism_binding_compile(ck, tc[:150 if quick else 3000] + rj[:60 if quick else 1000])
    ck.cov["programs"] = progs * 3
    ck.cov["disagreements_checked"] = progs * 3
    ck.cov["vacuity"]["T_programs"] = len(tc)
    ck.cov["rule"] = "each program is compiled at levels 0, 1 and 2 (rustc must accept) and the executables are observed on the given stdin"
    return ck.finish()
