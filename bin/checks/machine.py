"""C01 (and shared machinery for C02, C03, C07-branches, C14): HyMachine - DESIGN 6."""
import json, os, random, subprocess, concurrent.futures as cf
from hvlib import *
from . import register

HVEXEC = os.path.join(HBIN, "hv-exec")
HVPARSE = os.path.join(HBIN, "hv-parse")

# ------------------------------------------------------------------------------ program families
H = lambda t: [100 + t]
NIL = [0]


def C(k, h, d, ap=None):
    return {"k": k, "h": h, "d": d, "ap": ap or [0]}


def cps(s):
    return [ord(c) for c in s]


def one_to_n(n):
    """1_to_8 generalised: prints 1..n in decimal; the loop runs n times (n even)"""
    return [C(0, 1, 0), C(3, 1, n, H(4)), C(3, 1, 4), C(0, 1, 1), C(1, 2, 3), C(3, 1, 1), C(5, 1, 3), C(3, 2, n // 2, [33, 0, 104])]


def infinite_a():
    """prints A forever (stack 3 grows by one value per round)"""
    return [C(0, 5, 13, H(2)), C(1, 1, 1), C(0, 5, 13, H(2))]


CAT_LOOP = [C(5, 1, 0), C(1, 1, 0, H(2)), C(1, 1, 1), C(5, 1, 0), C(0, 1, 1), C(1, 2, 0), C(3, 1, 5), C(1, 1, 0, [63, 102, 0])]


def cat_n(n):
    """copy n characters"""
    return [C(5, 1, 0)] + [C(1, 1, 1) for _ in range(n)]


def rev_line():
    """read a line and print its first 3 characters in reverse order"""
    return [C(5, 1, 0), C(1, 1, 3), C(1, 1, 3), C(1, 1, 3), C(5, 1, 3), C(1, 1, 1), C(1, 1, 1), C(1, 1, 1)]


def push_value(v):
    """commands that leave the non-negative integer v on the selected stack (Horner, base 16)"""
    digits = []
    while True:
        digits.append(v % 16)
        v //= 16
        if v == 0:
            break
    digits.reverse()
    lit = lambda d: C(0, d, 1) if d > 0 else C(0, 1, 0)
    prog = [lit(digits[0])]
    for d in digits[1:]:
        prog += [C(0, 16, 1), C(2, 2, 3)]
        if d:
            prog += [lit(d), C(1, 2, 3)]
    return prog


def print_cps(cps_list, stream=1):
    prog = []
    for cp in cps_list:
        prog += push_value(cp) + [C(1, 1, stream)]
    return prog


INPUT_POOL = ["", "a", "ab\n", "한글\n", "x\ny", "\U0001F600\n\n", "abc\ndef\n", "\n", "1 2\n", "\x00\x7f\x80\n", "퟿￿\U00010000\U0010ffff"]


def rand_area(rng, depth=0):
    r = rng.random()
    hearts = [2, 2, 4, 4, 13, 5, 12, 3]
    if depth >= 3 or r < 0.35:
        return H(rng.choice(hearts)) if rng.random() < 0.75 else NIL
    op = 63 if rng.random() < 0.5 else 33
    # grammar-shaped: left of ? is a !-chain, left of ! is a slot
    if op == 63:
        left = rand_bang(rng, depth + 1)
        right = rand_area(rng, depth + 1)
    else:
        left = H(rng.choice(hearts)) if rng.random() < 0.7 else NIL
        right = rand_bang(rng, depth + 1)
    return [op] + left + right


def rand_bang(rng, depth):
    hearts = [2, 4, 13, 5]
    if depth >= 3 or rng.random() < 0.5:
        return H(rng.choice(hearts)) if rng.random() < 0.7 else NIL
    left = H(rng.choice(hearts)) if rng.random() < 0.7 else NIL
    return [33] + left + rand_bang(rng, depth + 1)


def rand_soup(rng, n, io=True):
    prog = []
    for _ in range(n):
        k = rng.choice([0, 0, 0, 1, 1, 2, 3, 4, 5, 5])
        h = rng.choice([1, 1, 1, 1, 2, 2, 3])
        if k == 0:
            d = rng.choice([0, 1, 1, 2, 3, 4, 5, 7, 13, 16])
            if rng.random() < 0.1:
                h, d = rng.choice([(5, 13), (8, 8), (4, 8), (10, 10), (2, 24)])
        else:
            d = rng.choice([3, 3, 3, 4, 4, 5, 6, 1, 1, 2, 0] if io else [3, 3, 3, 4, 4, 5, 6])
        ap = rand_area(rng) if rng.random() < 0.4 else NIL
        prog.append(C(k, h, d, ap))
    return prog


def retjump_soup(rng, n):
    """label / conditional jump / conditional return stress.  One work stack holding 0s and 5s: a `?`
    against count 3 pops one of them, so the values spell the path; prints of fresh letters make the
    path visible.  Typical paths: call, return, fall on, return again (with the same pending target)."""
    prog = [C(0, 1, rng.choice([0, 0, 0, 5])) for _ in range(rng.randint(6, 12))]
    letters = iter(range(65, 91))
    hearts = [7, 7, 5]
    for _ in range(n):
        r = rng.random()
        hh = rng.choice(hearts)
        if r < 0.18:
            prog.append(C(1, 1, 3, H(hh)))                        # label (first time) / jump (later)
        elif r < 0.40:
            prog.append(C(1, 1, 3, [63] + H(hh) + NIL))           # conditional jump
        elif r < 0.65:
            prog.append(C(1, 1, 3, [63] + H(13) + NIL))           # conditional return
        elif r < 0.73:
            prog.append(C(1, 1, 3, H(13)))                        # return
        elif r < 0.78:
            prog.append(C(1, 1, 3, [33] + H(hh) + H(13)))
        elif r < 0.93:
            prog += [C(0, next(letters, 90), 1), C(1, 1, 1)]      # print a fresh letter
        else:
            prog.append(C(0, 1, rng.choice([0, 5])))
    return prog


def prelude_stress(rng, n=150):
    """a long straight-line program (no areas, never selecting stack 1 or 2) built from small blocks:
    select stack 0 / 3 / 4, pop-and-print a few values (refilling stack 0 from standard input line by
    line), push constants, manufacture NaN on the selected stack (1/0, or popping it empty), move values
    between stacks.  One compilation exercises the emitted run-time support (push / pop / refill / NaN
    rule) on hundreds of operation sequences; a divergence shows in what gets printed afterwards."""
    prog = []
    while len(prog) < n:
        r = rng.random()
        if r < 0.2:
            prog.append(C(5, 1, rng.choice([0, 0, 0, 3, 4])))
        elif r < 0.45:
            prog += [C(1, 1, 1) for _ in range(rng.randint(1, 3))]                          # pop and print
        elif r < 0.6:
            prog += [C(0, rng.choice([1, 2, 48, 65, 97]), 1) for _ in range(rng.randint(1, 2))]
        elif r < 0.78:
            prog += [C(0, 1, 0), C(4, 1, rng.choice([3, 4, 4]))]                             # 1/0: NaN onto the selected stack
        elif r < 0.88:
            prog.append(C(1, rng.choice([1, 2]), rng.choice([0, 3, 4])))                     # move / add
        elif r < 0.94:
            prog.append(C(rng.choice([2, 3]), rng.choice([1, 2]), rng.choice([1, 3, 4])))
        else:
            prog += [C(1, 1, 4) for _ in range(rng.randint(2, 4))]                           # drain towards stack 4
    return prog


PRELUDE_INPUT = "a\nbc\nd\n\nef\ng\nh\nij\nk\nl\nm\nn\no\np"


def operand_family(rng):
    """multi-operand commands on stacks holding NaN at various depths, then everything left is printed:
    how many operands a command consumes, what it restores and in which order shows in the output"""
    prog = []
    for _ in range(rng.randint(2, 5)):
        v = rng.choice([1, 2, 3, 5, 0, "nan", "nan"])
        if v == "nan":
            prog += [C(0, 1, 0), C(4, 1, 4)]
        else:
            prog.append(C(0, 1, v) if v else C(0, 1, 0))
    for _ in range(rng.randint(1, 2)):
        prog.append(C(rng.choice([1, 2, 2, 3, 4]), rng.choice([2, 2, 3]), rng.choice([1, 3, 3, 4])))
    # print what is left: values are small numbers / fractions; as negatives they print as readable text
    prog += [C(3, 1, 1) for _ in range(6)]
    return prog


def area_pop_family(rng):
    """a stack of small numbers with NaN at random depths (NaN is made by 1/0 above other values), then one
    command with a nested ?/! tree: which branch is taken, and how many values each condition pops, shows
    in the stacks afterwards (every condition pops exactly one value, NaN or not, and a NaN always takes the right)"""
    prog = []
    for _ in range(rng.randint(2, 7)):
        v = rng.choice([0, 3, 3, 5, 1, "nan"])
        if v == "nan":
            prog += [C(0, 1, 0), C(4, 1, 4)]            # 0 -> 1/0 = NaN stays on the selected stack (above the others)
        else:
            prog.append(C(0, 1, v) if v else C(0, 1, 0))
    def tree(depth):
        if depth >= 3 or rng.random() < 0.3:
            return H(rng.choice([2, 4, 5, 7, 9, 11])) if rng.random() < 0.8 else NIL
        op = rng.choice([63, 33])
        return [op] + tree(depth + 1) + tree(depth + 1)
    ap = [rng.choice([63, 33])] + tree(1) + tree(1)
    prog.append(C(1, 1, 3, ap))                          # count 3: ? takes left below 3, ! on 3
    prog += [C(1, 1, 5) for _ in range(rng.randint(0, 3))]
    return prog


def fwdjump_family(rng):
    """a loop whose second pass takes a conditional jump FORWARD to a label registered further down on the
    first pass (jumps may lead to any command already seen, not only backwards)"""
    hk, hj = rng.sample([2, 4, 5, 7, 9], 2)
    letters = iter(range(65, 91))
    def prints():
        out = []
        for _ in range(rng.randint(1, 3)):
            out += [C(0, next(letters, 90), 1), C(1, 1, 1)]
        return out
    def cond(heart):
        # returns (area, value that takes the heart, value that falls through)
        if rng.random() < 0.5:
            return [63] + H(heart) + NIL, 0, 5
        return [33] + H(heart) + NIL, 3, 5
    aj, take_j, skip_j = cond(hj)
    ab, take_b, skip_b = cond(hk)
    # values are popped top first: pass 1 skips the forward jump and takes the back jump,
    # pass 2 takes the forward jump and leaves the loop
    order = [skip_j, take_b, take_j, skip_b] + [rng.choice([0, 3, 5]) for _ in range(rng.randint(0, 2))]
    prog = [C(0, 1, v) if v else C(0, 1, 0) for v in reversed(order)]
    prog += [C(1, 1, 3, H(hk))] + prints() + [C(1, 1, 3, aj)] + prints() + prints() + [C(1, 1, 3, H(hj))] + prints()
    prog += [C(1, 1, 3, ab)] + prints()
    if rng.random() < 0.4:
        prog += [C(1, 1, 3, [63] + H(13) + NIL)] + prints()
    return prog


def selfret_family(rng):
    """a command that first takes a conditional jump to a label (so that it becomes the last jump source) and,
    coming round again, evaluates to the return heart: the return jump leads to the command ITSELF, for ever.
    Values stay small (NaN from an empty stack).  A jump counter that looks only at backward or only at forward
    jumps misses it."""
    t = rng.choice([2, 4, 5, 7, 9, 12])
    op = rng.choice([63, 33])
    take = 1 if op == 63 else 3                      # ? takes its left below the count (3), ! at the count
    pre = [C(0, 1, rng.choice([1, 2, 5])) for _ in range(rng.randint(0, 3))]
    body = [C(0, 1, take)]
    if rng.random() < 0.5:
        body = [C(0, 1, take), C(0, 1, take)]
    lab = C(rng.choice([1, 1, 2, 3, 4]), 1, 3, H(t))
    ret = C(rng.choice([1, 1, 2, 3, 4, 5]), 1, 3, [op] + H(t) + H(13))
    mid = []
    if rng.random() < 0.4:
        mid = [C(0, 70 + rng.randint(0, 9), 1), C(1, 1, 1)]          # visible output before the loop closes
    post = [C(0, 65, 1), C(1, 1, 1)] if rng.random() < 0.5 else []
    return pre + body + [lab] + mid + [ret] + post


def twolabel_family(rng):
    """one command registers TWO labels: its area chooses between two hearts, it is visited twice in the part a
    level-2 optimiser can pre-execute (second visit through a jump to the label registered by the first) and
    takes a different heart each time.  Then pre-execution is stopped (a pop from stack 0) and the residual
    program jumps to both labels."""
    a, b = rng.sample([2, 3, 4, 5, 7, 9, 12], 2)
    letters = iter(range(65, 91))
    def pr():
        return [C(0, next(letters, 90), 1), C(1, 1, 1)]
    def cond(h1, h2=None):
        # (area, value taking the first heart, value taking the second / falling through)
        second = H(h2) if h2 else NIL
        if rng.random() < 0.6:
            return [63] + H(h1) + second, rng.choice([0, 1, 2]), 5
        return [33] + H(h1) + second, 3, 5
    aL, L_first, L_second = cond(a, b)
    aJ, J_take, J_skip = cond(b)
    x, y = (a, b) if rng.random() < 0.5 else (b, a)
    aR1, R1_take, R1_skip = cond(x)
    aR2, R2_take, R2_skip = cond(y)
    # popped top first: L takes b (registers it), J jumps to it, L takes a (second label), J falls through,
    # then the residual part: R1 jumps (its value exists twice: the cut duplicates it), ...
    order = [L_second, J_take, L_first, J_skip, R1_take, L_second, J_skip, R1_skip, R2_take, L_first, J_skip, R1_skip, R2_skip]
    order += [rng.choice([0, 3, 5]) for _ in range(rng.randint(0, 3))]
    prog = [C(0, 1, v) for v in reversed(order)]
    prog += [C(1, 1, 3, aL)] + pr() + [C(1, 1, 3, aJ)] + pr()
    prog += [C(5, 1, 0), C(5, 1, 3)]                       # a pop from stack 0: pre-execution stops here
    prog += [C(1, 1, 3, aR1)] + pr() + [C(1, 1, 3, aR2)] + pr()
    return prog


def lastswitch_family(rng):
    """the LAST command of the program is a duplicate that selects a stack above 3 which nothing else selects,
    and its area jumps back: the commands of the loop body then run with that stack selected.  Another stack
    above 3 is only ever written to.  (A liveness analysis that looks at every command but the last one
    treats both as write-only and lets them share a slot.)"""
    w, sel = rng.sample([4, 5, 6, 7, 8, 9, 11, 12], 2)
    t = rng.choice([2, 4, 5, 7, 9, 12])
    a, b = rng.sample(range(65, 91), 2)
    prog = [C(0, a, 1), C(1, 1, sel)]                       # a letter waits on the stack selected at the end
    if rng.random() < 0.5:
        prog += [C(0, a + 1, 1), C(1, 1, sel)]
    prog += [C(0, 1, 1), C(0, b, 1)]
    prog += [C(0, 1, sel, H(t))]                            # label (count = sel so that the last command finds it)
    prog += [C(1, 1, w)]                                    # ... moved to the write-only stack
    if rng.random() < 0.5:
        prog += [C(0, 1, 2), C(1, 1, w)]
    prog += [C(1, 1, 1)]                                    # print the top of whatever stack is selected
    prog += [C(5, 1, sel, [63] + H(t) + NIL)]               # select `sel`; 1 < count: jump back to the label
    return prog


def mutate(rng, prog):
    p = [dict(c) for c in prog]
    i = rng.randrange(len(p))
    what = rng.random()
    if what < 0.3:
        p[i]["h"] = max(1, p[i]["h"] + rng.choice([-1, 1]))
    elif what < 0.6:
        p[i]["d"] = max(0, p[i]["d"] + rng.choice([-1, 1, 2]))
    elif what < 0.8:
        p[i]["ap"] = rand_area(rng)
    else:
        p.insert(i, rand_soup(rng, 1)[0])
    return p


_examples = {}


def example_prog(name):
    if name not in _examples:
        path = os.path.join(REPO, "examples", name, name + ".hyeong")
        r = subprocess.run([HVPARSE, "dump", "--file", path], stdout=subprocess.PIPE, text=True)
        _examples[name] = json.loads(r.stdout)
    return _examples[name]


def gen_cases(rng, n, flavor="mixed"):
    """seeded structured programs x stdin texts"""
    cases = []
    fixed = [
        (one_to_n(8), ""), (one_to_n(98), ""), (one_to_n(100), ""), (one_to_n(102), ""), (one_to_n(150), ""),
        (infinite_a(), ""), (CAT_LOOP, "abc\n"), (CAT_LOOP, "x"), (CAT_LOOP, "가나\n다\n\n라"), (cat_n(3), "ab"), (cat_n(2), "\U0001F600z"),
        (rev_line(), "abc\n"), (example_prog("hello_world"), ""), (example_prog("1_to_8"), ""),
        (example_prog("a_plus_b"), "3 4\n"), (example_prog("a_plus_b"), "12 30"), (example_prog("a_mult_b"), "6 7\n"),
        # exits through stack 1 and 2 with output before, unencodable output, value 2^32 (unspecified)
        ([C(0, 5, 13), C(1, 1, 1), C(5, 1, 1), C(1, 1, 3), C(0, 1, 1)], ""),
        ([C(0, 5, 13), C(1, 1, 2), C(5, 1, 2), C(1, 1, 3)], ""),
        ([C(0, 1, 1), C(1, 1, 1), C(0, 1376, 40), C(1, 1, 1), C(0, 1, 1)], ""),        # 55040 = U+D700 fine, then
        ([C(0, 1, 1), C(1, 1, 2), C(0, 1382, 40), C(1, 1, 1), C(0, 1, 1)], ""),        # 55280 = U+D7F0 ok
        ([C(0, 65, 1), C(1, 1, 1), C(0, 1400, 40), C(1, 1, 1), C(0, 1, 1)], ""),       # 56000: surrogate -> encoding error
        ([C(0, 65, 1), C(1, 1, 1), C(0, 1114112, 1), C(1, 1, 2)], ""),                 # beyond U+10FFFF
        ([C(0, 65536, 1), C(0, 65536, 1), C(2, 2, 1)], ""),                            # 2^32 -> unspecified
        # characters at every UTF-8 length boundary printed from constants, to both streams, before and after a read
        (print_cps([0x7F, 0x80, 0x7FF, 0x800]) + print_cps([0xFFFF, 0x10000], 2) + print_cps([0x10FFFF, 0xD7FF, 0xE000]), ""),
        (print_cps([0x10000, 0x41]) + [C(5, 1, 0), C(1, 1, 1), C(5, 1, 3)] + print_cps([0x1F600], 2) + print_cps([0x80]), "é\n"),
        ([C(5, 1, 0), C(1, 1, 1), C(5, 1, 3)] + print_cps([0x10FFFF, 0x800, 0x7FF]), "\U00010000"),
        (print_cps([0xE9], 2) + print_cps([0xE9, 0xFF, 0x100]), ""),
        # a lot of output from one command (copies of a 3-byte character): sizes around 1 KiB and 4 KiB
        (push_value(0xAC00) + [C(5, 342, 1)], ""),
        # fractions and negatives printed, NaN printed, multi-operand restore
        ([C(0, 1, 2), C(4, 1, 3), C(0, 1, 3), C(2, 2, 3), C(3, 1, 1), C(1, 1, 1)], ""),
        ([C(0, 1, 1), C(0, 1, 2), C(0, 1, 3), C(3, 3, 4), C(4, 3, 5), C(1, 1, 1), C(1, 1, 1), C(1, 1, 1), C(1, 1, 1)], ""),
    ]
    for p, i in fixed:
        cases.append({"prog": p, "input": cps(i)})
    while len(cases) < n:
        r = rng.random()
        inp = rng.choice(INPUT_POOL)
        if r < 0.55:
            p = rand_soup(rng, rng.randint(3, 25), io=(flavor != "noio"))
        elif r < 0.75:
            base, bi = rng.choice(fixed)
            p, inp = mutate(rng, base), (bi if rng.random() < 0.7 else inp)
        elif r < 0.85:
            p = one_to_n(rng.choice([2, 4, 6, 10, 20, 50, 96, 104, 200]))
        elif r < 0.89:
            p = rand_soup(rng, rng.randint(1, 4)) + infinite_a() + rand_soup(rng, rng.randint(0, 3))
        elif r < 0.92:
            p = retjump_soup(rng, rng.randint(5, 12))
        elif r < 0.94:
            p = fwdjump_family(rng)
        elif r < 0.955:
            p = area_pop_family(rng)
        elif r < 0.975:
            p = operand_family(rng)
        else:
            p = CAT_LOOP if rng.random() < 0.5 else cat_n(rng.randint(1, 6))
            if rng.random() < 0.3:
                p = rand_soup(rng, 2, io=False) + p
            inp = "".join(rng.choice("ab가\n\U0001F600 ") for _ in range(rng.randint(0, 12)))
        if flavor == "noio":
            inp = ""
        cases.append({"prog": p, "input": cps(inp)})
    return cases


# ------------------------------------------------------------------------------ TLC helpers
def mc_machine(ck, slice_, maxlen, maxsteps, maxdigits=2, dump=True, timeout=2400):
    """(M) explore HyMachine over a slice; returns path of the dumped cases (one per completed behaviour)"""
    work = tmpdir("mach_%s_%s" % (ck.pid, slice_))
    cases = os.path.join(work, "cases.json")
    cfg = write_cfg("gen/MC_HyMachine_%s_%s.cfg" % (ck.pid, slice_),
                    'SPECIFICATION Spec\nCONSTANTS\n  B = 256\n  Slice = "%s"\n  MaxLen = %d\n  MaxSteps = %d\n  MaxDigits = %d\n  DumpOn = %s\n'
                    'INVARIANT InvNoNaNAtBottom\nINVARIANT InvCanonical\nINVARIANT InvBackwardOnly\nINVARIANT Dump\n'
                    'PROPERTY LabelsWriteOnce\nPROPERTY OutputAppendOnly\nPROPERTY ExitIsFinal\nPROPERTY InputOnlyConsumed\n'
                    'PROPERTY PcDiscipline\nPROPERTY LastDiscipline\nPROPERTY LabelAtSource\nPROPERTY OneLabelPerStep\nPROPERTY CurDiscipline\n'
                    'INVARIANT InvStraightLine\nINVARIANT InvOutputStacksEmpty\n'
                    'CONSTRAINT Small\nCHECK_DEADLOCK FALSE\n' % (slice_, maxlen, maxsteps, maxdigits, "TRUE" if dump else "FALSE"))
    n = [0]
    with open(cases, "w") as f:
        def take(t):
            if t[0] == "REPLAY":
                f.write(t[1] + "\n")
                n[0] += 1
        r = tlc("MC_HyMachine", cfg, workers=16, timeout=timeout, xss="512m", on_tuple=take)
    if r.error and "violated" in (r.error or ""):
        raise ToolError("HyMachine violates its own invariant (%s): %s\n%s" % (slice_, r.error, r.raw_tail[-1500:]))
    require_ok(r, "MC_HyMachine " + slice_)
    log("MC_HyMachine %s: %d states, %d behaviours, %.1fs" % (slice_, r.distinct, n[0], r.wall))
    ck.add_tlc(r)
    ck.cov["vacuity"]["MC_HyMachine_%s_states" % slice_] = r.distinct
    ck.cov["vacuity"]["MC_HyMachine_%s_behaviours" % slice_] = n[0]
    # (TLC's -coverage instruments every sub-expression and makes the recursive arithmetic ~100x slower,
    #  so per-kind action counts are not collected here; the kinds executed are counted from the replayed traces)
    return cases, n[0]


def write_cases(path, cases):
    with open(path, "w") as f:
        for c in cases:
            f.write(json.dumps(c, ensure_ascii=False) + "\n")


def sample_lines(path, k, rng):
    lines = open(path).read().split("\n")
    lines = [x for x in lines if x.strip()]
    if len(lines) <= k:
        return lines
    return rng.sample(lines, k)


def sample_lines_list(lines, k, rng):
    return list(lines) if len(lines) <= k else rng.sample(list(lines), k)


def validate_machine(path):
    return tlc("Trace_HyMachine", "Trace_HyMachine.cfg", env={"TRACE": path}, workers=1, timeout=3400, xss="1g", xmx="4g", deque=True)


def split_trace(path, parts):
    """split an ndjson trace before `reset` / `obs` events into about equal files"""
    lines = [l for l in open(path).read().split("\n") if l.strip()]
    groups, cur = [], []
    for l in lines:
        head = l[:200]
        if ('"ev":"reset"' in head or '"ev": "reset"' in head or '"ev":"obs"' in head or '"ev": "obs"' in head) and cur:
            groups.append(cur)
            cur = []
        cur.append(l)
    if cur:
        groups.append(cur)
    # a trace file is read by TLC in one piece: keep every part below ~40k lines and ~12 MB
    parts = max(parts, (len(lines) + 39999) // 40000, (sum(len(l) for l in lines) + 12_000_000 - 1) // 12_000_000)
    parts = max(1, min(parts, len(groups)))
    files = []
    for i in range(parts):
        g = groups[i::parts]
        if not g:
            continue
        p = "%s.part%d" % (path, i)
        with open(p, "w") as f:
            for grp in g:
                f.write("\n".join(grp) + "\n")
        files.append(p)
    return files


def sharded(cases_path, work, argv_of, shards=8):
    """process spawning scales per parent process, not per thread: run several hv-exec parents side by side"""
    lines = [l for l in open(cases_path).read().split("\n") if l.strip()]
    shards = max(1, min(shards, (len(lines) + 24) // 25))
    procs, outs = [], []
    for i in range(shards):
        part = lines[i::shards]
        inp = os.path.join(work, "in%d.json" % i)
        out = os.path.join(work, "out%d.ndjson" % i)
        open(inp, "w").write("\n".join(part) + "\n")
        procs.append(subprocess.Popen(argv_of(inp, out, os.path.join(work, "w%d" % i))))
        outs.append(out)
    for k, p in enumerate(procs):
        if p.wait() != 0:
            # once more, alone (an overloaded machine can fail to spawn threads)
            i = k
            r = subprocess.run(argv_of(os.path.join(work, "in%d.json" % i), outs[i], os.path.join(work, "w%d" % i)))
            if r.returncode != 0:
                raise ToolError("hv-exec failed")
    trace = os.path.join(work, "trace.ndjson")
    with open(trace, "w") as f:
        for o in outs:
            f.write(open(o).read())
    return trace


def run_steps(ck, cases_path, tag, maxsteps=60, maxlimbs=6):
    work = tmpdir("steps_%s_%s" % (ck.pid, tag))
    return sharded(cases_path, work, lambda i, o, w: [HVEXEC, "steps", "--in", i, "--out", o, "--work", w, "--jobs", "2",
                                                      "--maxsteps", str(maxsteps), "--maxlimbs", str(maxlimbs)])


def run_obs(ck, cases_path, tag, levels="0", clevels="", bound=400, timeout_ms=3000):
    work = tmpdir("obs_%s_%s" % (ck.pid, tag))
    hy = build_hyeong()
    extra = ["--clevels", clevels, "--rlib", build_numlib()] if clevels else []
    trace = sharded(cases_path, work, lambda i, o, w: [HVEXEC, "obs", "--in", i, "--out", o, "--work", w, "--hyeong", hy, "--jobs", "2",
                                                       "--levels", levels, "--timeout", str(timeout_ms)] + extra)
    # the reference run's step bound travels with the event
    tmp = trace + ".b"
    with open(trace) as fi, open(tmp, "w") as fo:
        for l in fi:
            l = l.rstrip("\n")
            if l.strip():
                fo.write(l[:-1] + ',"bound":%d}\n' % bound)      # every event is one JSON object per line
    os.replace(tmp, trace)
    return trace


def prog_text(prog):
    S = "형항핫흣흡흑"
    ST, FI, EN = "혀하하흐흐흐", "어아아으으으", "엉앙앗읏읍윽"
    HE = "♥❤💕💖💗💘💙💚💛💜💝♡"
    out = []
    for c in prog:
        k, h, d = c["k"], c["h"], c["d"]
        s = S[k] if h == 1 else ST[k] + FI[k] * (h - 2) + EN[k]
        s += "." * d if d < 40 else ".{%d}" % d
        ap = c["ap"]
        i = [0]

        def go():
            t = ap[i[0]]
            i[0] += 1
            if t == 0:
                return ""
            if t in (63, 33):
                l = go()
                r = go()
                return l + chr(t) + r
            return HE[t - 102]
        s += go()
        out.append(s)
    return " ".join(out)


def validate_traces(ck, trace, parts, classify, label, retry=True):
    """validate a trace in `parts` parallel TLC runs; classify(event, expected) -> signature or None"""
    t0 = time.time()
    retry_cases = []
    files = split_trace(trace, parts)
    with cf.ThreadPoolExecutor(max_workers=min(12, len(files))) as ex:
        results = list(ex.map(validate_machine, files))
    total = 0
    for path, r in zip(files, results):
        nlines = sum(1 for l in open(path) if l.strip())
        end = [t for t in r.tuples if t[0] == "TRACE-END"]
        if not end or end[0][1] != end[0][2] or end[0][2] != nlines:
            raise ToolError("Trace_HyMachine did not consume %s: %r %s\n%s" % (path, end, r.error, r.raw_tail[-2000:]))
        ck.add_tlc(r)
        total += nlines
        if any(t[0] == "MISMATCH" for t in r.tuples):
            events = [json.loads(l) for l in open(path).read().split("\n") if l.strip()]
        for t in r.tuples:
            if t[0] == "TEXT-MISPARSED":
                ck.cov["binding_drift"].append("canonical text of a program parsed to different commands (belongs to C04): %s" % t[2][:200])
                continue
            if t[0] != "MISMATCH":
                continue
            e = json.loads(t[2])
            exp = json.loads(t[3]) if len(t) > 3 else None
            if e.get("ev") == "obs":
                prog, inp = e["prog"], e["input"]
                badruns = e["bad"]
                badruns = list(badruns.values()) if isinstance(badruns, dict) else badruns
                # a run that was killed by the harness's time limit although the reference run ends is first
                # repeated with a generous limit: a loaded machine must not turn into an alarm
                if retry and exp and exp.get("ending") != "running" and any(r.get("timeout") for r in badruns):
                    retry_cases.append({"prog": prog, "input": inp, "tag": e.get("tag", ""), "bound": e.get("bound", 400),
                                        "hows": [r.get("how") for r in badruns]})
                    badruns = [r for r in badruns if not r.get("timeout")]
                for run in badruns:
                    sig = classify(e, run, exp)
                    if sig:
                        ck.violation("%s %s :: program `%s` stdin %s" % (label, sig, prog_text(prog), json.dumps("".join(chr(c) for c in inp), ensure_ascii=False)),
                                     {"kind": "obs", "prog": prog, "input": inp, "bound": e.get("bound", 400), "run": run, "reference": exp})
            else:
                idx = t[1] - 1
                j = idx
                while j > 0 and events[j].get("ev") != "reset":
                    j -= 1
                prog, inp = events[j]["prog"], events[j]["input"]
                sig = classify(e, None, exp)
                if sig:
                    ck.violation("%s %s at command %s :: program `%s` stdin %s" % (label, sig, e.get("pc", "?"), prog_text(prog),
                                                                                 json.dumps("".join(chr(c) for c in inp), ensure_ascii=False)),
                                 {"kind": "steps", "prog": prog, "input": inp, "event": e, "expected": exp})
    ck.cov["traces_validated_against_impl"] += total
    log("%s: %d events validated in %.1fs" % (label, total, time.time() - t0))
    if len(retry_cases) > 40:
        # far too many time-outs for a loaded machine to explain: repeat a sample only
        retry_cases = retry_cases[:40]
    if retry_cases:
        work = tmpdir("retry_%s_%s" % (ck.pid, label.replace("/", "_")))
        for how_kind in ("run-", "compiled-"):
            sel = [c for c in retry_cases if any(h.startswith(how_kind) for h in c["hows"])]
            if not sel:
                continue
            lv = ",".join(sorted(set(h[-1] for c in sel for h in c["hows"] if h.startswith(how_kind))))
            cpath = os.path.join(work, "cases_%s.json" % how_kind.strip("-"))
            write_cases(cpath, [{"prog": c["prog"], "input": c["input"], "tag": c["tag"]} for c in sel])
            obs = run_obs(ck, cpath, "retry_" + how_kind.strip("-"), levels=lv if how_kind == "run-" else "",
                          clevels=lv if how_kind == "compiled-" else "", bound=max(c["bound"] for c in sel), timeout_ms=30000)
            validate_traces(ck, obs, parts, classify, label + "-retry", retry=False)
        ck.cov["vacuity"][label + "_timeouts_retried"] = len(retry_cases)
    return total


def classify_c01(e, run, exp):
    if run is not None:
        return "binary %s: stdout/stderr/status differ from the definition" % run.get("how")
    return "%s event differs from the definition" % e.get("ev")


def do_replay_machine(ck, path, levels="0", clevels="", classify=classify_c01, label="replay"):
    pl = json.load(open(path))["payload"]
    work = tmpdir("mach_replay_%s" % ck.pid)
    cases = os.path.join(work, "case.json")
    write_cases(cases, [{"prog": pl["prog"], "input": pl["input"]}])
    if pl["kind"] == "steps":
        trace = run_steps(ck, cases, "replay", maxsteps=400)
    else:
        how = pl.get("run", {}).get("how", "run-O0")
        lv = how[-1] if how.startswith("run-") else ""
        cl = how[-1] if how.startswith("compiled-") else ""
        trace = run_obs(ck, cases, "replay", levels=lv, clevels=cl, bound=pl.get("bound", 400))
    validate_traces(ck, trace, 1, classify, label)
    ck.sample({"program": prog_text(pl["prog"])})
    return ck.finish()


@register("C01")
def check_c01(pid, tier, seed, replay):
    ck = Check(pid, tier, seed, "model_checking")
    build_harness()
    ck.assumptions = [
        "oracle: HyMachine.tla (the language definition as an abstract machine over HyNumbers at B=256) evaluated by TLC",
        "programs longer than the enumeration bound and values above the size cap are sampled (seeded), not enumerated",
        "behaviour the sources declare unspecified (a value >= 2^32 written to an output stack) ends the comparison of that run",
    ]
    if replay:
        ck.write_evidence = False
        return do_replay_machine(ck, replay)
    quick = tier == "quick"
    rng = random.Random(seed)
    plan = [("arithq", 3, 8), ("controlq", 3, 12), ("io", 2, 8), ("io3", 3, 10)] if quick else \
           [("arith", 3, 12), ("control", 3, 14), ("controlq", 4, 14), ("io", 3, 12)]
    # (M only) control-flow discipline where return jumps to a non-label command are reachable (PcDiscipline is not
    # vacuous there: dropping its return-jump disjunct is refuted in this slice)
    mc_machine(ck, "ret", 5, 14, dump=False)
    for slice_, ml, steps in plan:
        cases, n = mc_machine(ck, slice_, ml, steps)
        if n > 600000:
            # the widest thorough slices are replayed as a seeded sample (stated in the evidence)
            keep = sample_lines(cases, 600000, rng)
            open(cases, "w").write("\n".join(keep) + "\n")
            ck.cov["vacuity"]["R_%s_sampled_of" % slice_] = [len(keep), n]
            ck.cov["sampled_slices"] = ck.cov.get("sampled_slices", 0) + 1
        # (R) every explored behaviour, command by command, through execute_one
        trace = run_steps(ck, cases, slice_, maxsteps=steps + 6)
        validate_traces(ck, trace, 14, classify_c01, "R-%s" % slice_)
        if ck.enough():
            return ck.finish()
        ck.cov["exhaustive"] = not ck.cov.get("sampled_slices")
        # the same behaviours through the real binary (whole-run observation), a seeded sample
        sub = os.path.join(os.path.dirname(cases), "bin_cases.json")
        open(sub, "w").write("\n".join(sample_lines(cases, 600 if quick else 20000, rng)) + "\n")
        obs = run_obs(ck, sub, slice_, levels="0", bound=steps + 6, timeout_ms=2000)
        validate_traces(ck, obs, 8, classify_c01, "R-bin-%s" % slice_)
        with open(cases) as f:
            ck.sample(prog_text(json.loads(f.readline())["prog"]))
    # (T) structured random programs far beyond the enumeration bound
    tcases = gen_cases(rng, 220 if quick else 6000)
    tcases += [{"prog": selfret_family(rng), "input": []} for _ in range(20 if quick else 400)]
    work = tmpdir("c01_T")
    cpath = os.path.join(work, "cases.json")
    write_cases(cpath, tcases)
    trace = run_steps(ck, cpath, "T", maxsteps=250, maxlimbs=6)
    validate_traces(ck, trace, 14, classify_c01, "T")
    obs = run_obs(ck, cpath, "T", levels="0", bound=1100, timeout_ms=1500)
    validate_traces(ck, obs, 14, classify_c01, "T-bin")
    ck.sample(prog_text(tcases[40]["prog"]))
    ck.cov["vacuity"]["T_programs"] = len(tcases)
    ck.cov["rule"] = ("R: every behaviour of the TLC-explored program space (all programs up to the bound over three command "
                      "alphabets x input family), compared after every command; T: seeded structured programs x stdin texts")
    return ck.finish()


# ------------------------------------------------------------------------------ C14
BOUNDARY = [0x0, 0x7F, 0x80, 0x7FF, 0x800, 0xD7FF, 0xE000, 0xFFFF, 0x10000, 0x10FFFF]


def rand_text(rng, n):
    out = []
    for _ in range(n):
        r = rng.random()
        if r < 0.15:
            c = 10
        elif r < 0.3:
            c = rng.choice(BOUNDARY)
        elif r < 0.6:
            c = rng.randrange(32, 127)
        elif r < 0.8:
            c = rng.randrange(0xAC00, 0xD7A4)
        else:
            c = rng.randrange(0, 0x110000)
            if 0xD800 <= c <= 0xDFFF:
                c = 0x1F600
        out.append(c)
    return out


def mc_cat(ck, maxlen):
    cfg = write_cfg("gen/MC_Cat.cfg", "SPECIFICATION Spec\nCONSTANTS\n  B = 256\n  MaxLen = %d\n  Chars = {97, 0, 10, 65536}\n"
                    "INVARIANT CatLoopCopies\nINVARIANT CatNCopies\nINVARIANT CatNPastEnd\nINVARIANT EofIsNaN\nINVARIANT PrefixSoFar\nCHECK_DEADLOCK FALSE\n" % maxlen)
    r = tlc("MC_Cat", cfg, workers=16, timeout=1800, xss="512m")
    if r.error and "violated" in r.error:
        raise ToolError("the copy programs do not copy in the language definition itself: %s\n%s" % (r.error, r.raw_tail[-1500:]))
    require_ok(r, "MC_Cat")
    ck.add_tlc(r)
    ck.cov["vacuity"]["MC_Cat_states"] = r.distinct


def classify_c14(e, run, exp):
    if run is None:
        return None
    return "%s does not reproduce the input as the definition says" % run.get("how")


@register("C14")
def check_c14(pid, tier, seed, replay):
    ck = Check(pid, tier, seed, "model_checking")
    build_harness()
    ck.assumptions = [
        "oracle: HyMachine.tla's standard-input / output model evaluated by TLC; MC_Cat shows in-spec that the copy programs reproduce every text up to the bound",
        "for texts longer than 300 characters the expected output of CatLoop is the input itself, by the MC_Cat theorem (the machine is not re-run on them)",
        "the compiled half trusts rustc",
    ]
    if replay:
        ck.write_evidence = False
        return do_replay_machine(ck, replay, classify=classify_c14)
    quick = tier == "quick"
    rng = random.Random(seed)
    mc_cat(ck, 4 if quick else 6)
    texts = [[c] for c in BOUNDARY] + [[97, c, 98, 10] for c in BOUNDARY] + [
        cps("a"), cps("ab"), cps("ab\n"), cps("\n"), cps("\n\n"), cps("a\n\nb"), cps("a\r\nb\r\n"), cps("한글 テスト \U0001F600\n끝"),
        BOUNDARY[:], list(reversed(BOUNDARY)) + [10], cps("no newline at end"), cps("\x00\x00\n\x00"), cps(" \t \n")]
    texts += [rand_text(rng, rng.randint(1, 60)) for _ in range(40 if quick else 600)]
    short = [t for t in texts]
    cases = [{"prog": CAT_LOOP, "inputs": short, "tag": "catloop"}]
    for n in ([0, 1, 2, 5] if quick else [0, 1, 2, 3, 5, 8, 13]):
        cases.append({"prog": cat_n(n), "inputs": short + [[]], "tag": "catn"})
    cases.append({"prog": rev_line(), "inputs": [t for t in short if len(t) >= 3][:40 if quick else 400], "tag": "revline"})
    # very long lines / many lines: judged by the MC_Cat theorem
    long_texts = [rand_text(rng, 2000 if quick else 10000)]
    long_texts.append([c for _ in range(200 if quick else 1000) for c in (rand_text(rng, rng.randint(0, 6)) + [10])])
    long_texts.append([97] * (3000 if quick else 10000) + [10] + [0x10FFFF] * 50)
    # single lines around the usual I/O buffer sizes, with multi-byte characters across the boundary
    for size in (8192, 16384) if quick else (4096, 8192, 16384, 65536):
        for k in (0, 1, 2, 3):
            long_texts.append([97] * (size - k) + [0xD55C, 0x10000, 0xE9] + [98] * 5 + [10, 99])
    long_texts.append(rand_text(rng, 5000) if quick else rand_text(rng, 40000))
    long_texts = [[c for c in t] for t in long_texts]
    for t in long_texts:
        if not t or t[0] == 10 and len(t) == 1:
            t.append(97)
    cases.append({"prog": CAT_LOOP, "inputs": long_texts, "tag": "catloop-by-theorem"})
    work = tmpdir("c14")
    cpath = os.path.join(work, "cases.json")
    write_cases(cpath, cases)
    obs = run_obs(ck, cpath, "fam", levels="0,1,2", clevels="0,1,2", bound=700, timeout_ms=20000)
    n = validate_traces(ck, obs, 14, classify_c14, "family")
    ck.cov["vacuity"]["runs_per_text"] = 6
    ck.cov["vacuity"]["texts"] = len(texts) + len(long_texts)
    ck.sample({"program": prog_text(CAT_LOOP), "input": "".join(chr(c) for c in texts[25])})
    ck.sample({"program": prog_text(cat_n(5)), "input": "".join(chr(c) for c in texts[31])})
    ck.cov["rule"] = "family of copy programs x texts (every plane and UTF-8 length boundary, line-break shapes, seeded random, very long) x {run -O0/-O1/-O2, compiled -O0/-O1/-O2}"
    return ck.finish()
