"""C02, C10: the optimiser (HyOptimize) - DESIGN 6."""
import json, os, random, subprocess, time, concurrent.futures as cf
from hvlib import *
from . import register
from . import machine as M

ALL_GUARDS = '{"kind", "area", "budget"}'


def mc_opt(ck, slice_, maxlen, maxsteps, budget=2, guards=ALL_GUARDS, invs=("L1Eq", "L1Refines", "L2Eq", "NoEff", "Bounded", "Terminates"),
           dump=False, expect_violation=None, timeout=2400):
    work = tmpdir("opt_%s_%s" % (ck.pid, slice_))
    cases = os.path.join(work, "cases.json")
    name = "gen/MC_HyOptimize_%s_%s_%s.cfg" % (ck.pid, slice_, expect_violation or "main")
    cfg = write_cfg(name, 'SPECIFICATION Spec\nCONSTANTS\n  B = 256\n  Slice = "%s"\n  MaxLen = %d\n  MaxSteps = %d\n  Budget = %d\n  Guards = %s\n  DumpOn = %s\n%s%sCHECK_DEADLOCK FALSE\n'
                    % (slice_, maxlen, maxsteps, budget, guards, "TRUE" if dump else "FALSE",
                       "".join("INVARIANT %s\n" % i for i in invs), "INVARIANT Dump\n" if dump else ""))
    n = [0]
    with open(cases, "w") as f:
        def take(t):
            if t[0] == "REPLAY":
                f.write(t[1] + "\n")
                n[0] += 1
        r = tlc("MC_HyOptimize", cfg, workers=16, timeout=timeout, xss="512m", on_tuple=take)
    if expect_violation:
        if not (r.error and expect_violation in r.error and "violated" in r.error):
            raise ToolError("vacuity: expected %s to be violated inside the bound (slice %s), TLC said: %s" % (expect_violation, slice_, r.error))
        ck.cov["vacuity"]["witness_%s_%s" % (slice_, expect_violation)] = "reached"
        return None, 0
    if r.error and "violated" in (r.error or ""):
        raise ToolError("HyOptimize does not refine HyMachine in the specification itself (%s): %s\n%s" % (slice_, r.error, r.raw_tail[-2500:]))
    require_ok(r, "MC_HyOptimize " + slice_)
    log("MC_HyOptimize %s: %d programs x inputs, %.1fs" % (slice_, r.distinct, r.wall))
    ck.add_tlc(r)
    ck.cov["vacuity"]["MC_HyOptimize_%s_states" % slice_] = r.distinct
    return cases, n[0]


def mechanism_binding(ck, cases):
    """binding diagnostics (never a verdict): the real optimize() against Renumber / StackCount / PreExec
    evaluated with the code's own budget - slot numbers, vector size, stop index, state left behind"""
    work = tmpdir("optdump_%s" % ck.pid)
    cpath = os.path.join(work, "cases.json")
    M.write_cases(cpath, [{"prog": c["prog"]} for c in cases])
    out = os.path.join(work, "dump.ndjson")
    try:
        p = subprocess.run([M.HVEXEC, "optdump", "--in", cpath, "--out", out], stdin=subprocess.DEVNULL, timeout=300)
        if p.returncode != 0:
            raise RuntimeError("status %s" % p.returncode)
    except Exception as ex:
        ck.cov["binding_drift"].append("mechanism dump of optimize() not available (%s)" % ex)
        return
    r = tlc("Trace_HyOptimize", "Trace_HyOptimize.cfg", env={"TRACE": out}, workers=1, timeout=1800, xss="1g", xmx="4g")
    n = sum(1 for l in open(out) if l.strip())
    end = [t for t in r.tuples if t[0] == "TRACE-END"]
    if not end or end[0][2] != n:
        ck.cov["binding_drift"].append("mechanism trace not consumed: %s" % (r.error,))
        return
    ck.add_tlc(r)
    drifts = [t for t in r.tuples if t[0] == "DRIFT"]
    for t in drifts[:10]:
        ck.cov["binding_drift"].append("optimize level %s: %s :: program %s" % (t[2], t[3], M.prog_text(json.loads(t[4]))[:200]))
    ck.cov["vacuity"]["mechanism_dumps_compared"] = n
    ck.cov["vacuity"]["mechanism_drifts"] = len(drifts)
    log("mechanism binding: %d dumps compared with HyOptimize, %d drift(s)" % (n, len(drifts)))


def classify_c02(e, run, exp):
    if run is None:
        return None
    how = run.get("how", "")
    if how in ("run-O1", "run-O2"):
        return "%s: stdout/stderr/status differ from the unoptimised definition" % how
    if how == "run-O0":
        # the reference itself disagrees with the definition: that is C01's finding, but an optimised run
        # can then not be judged either - report it here only as drift
        return None
    return None


def loop_programs():
    P = []
    for n in (98, 100, 102, 150, 200, 202):
        P.append((M.one_to_n(n), ""))
    P.append((M.infinite_a(), ""))
    C = M.C
    H = M.H
    # output inside a loop that exceeds the budget, then a read; exit through 1/2 in the prefix region
    P.append(([C(0, 5, 13, H(2)), C(1, 1, 1), C(0, 5, 13, H(2)), C(5, 1, 0), C(1, 1, 1)], "z"))
    P.append(([C(0, 5, 13), C(1, 1, 1), C(0, 5, 13), C(1, 1, 2), C(5, 1, 1), C(1, 1, 3), C(0, 1, 1)], ""))
    P.append(([C(0, 5, 13), C(1, 1, 2), C(5, 1, 2), C(0, 1, 1, [63, 102, 0])], ""))
    # multi-operand restore with distinct fractions, then print
    P.append(([C(0, 1, 1), C(0, 1, 2), C(0, 1, 3), C(4, 3, 4), C(3, 2, 5), C(1, 1, 1), C(1, 1, 1), C(1, 1, 1)], ""))
    # the same destination used as selectable and as write-only; backward jump after the last switch
    P.append(([C(0, 1, 1), C(1, 1, 5), C(0, 1, 2), C(0, 1, 2), C(1, 1, 3, H(2)), C(1, 2, 1), C(0, 1, 2), C(5, 1, 4), C(0, 1, 3, H(2))], ""))
    P.append(([C(0, 8, 8), C(5, 1, 4), C(0, 8, 9), C(1, 1, 5), C(1, 1, 1)], ""))
    P.append(([C(0, 1, 1), C(5, 1, 7), C(0, 1, 2), C(1, 1, 9), C(5, 1, 9), C(1, 1, 3), C(5, 1, 3), C(1, 1, 1)], ""))
    # renumbering: every arrangement of a write-only stack w and a selected stack s above 3 (and two of each),
    # written and selected in either order, then read twice (the second read sees what lies underneath)
    for w in (4, 5, 6, 7, 9):
        for sel in (4, 5, 6, 7, 12):
            if sel == w:
                continue
            P.append(([C(0, 65, 1), C(1, 1, w), C(0, 66, 1), C(5, 1, sel), C(1, 1, 1), C(1, 1, 1)], ""))
            P.append(([C(0, 66, 1), C(5, 1, sel), C(5, 1, 3), C(0, 65, 1), C(1, 1, w), C(5, 1, sel), C(1, 1, 1), C(1, 1, 1)], ""))
    P.append(([C(0, 65, 1), C(1, 1, 4), C(0, 67, 1), C(1, 1, 8), C(0, 66, 1), C(5, 1, 6), C(5, 1, 3), C(0, 68, 1), C(5, 1, 5),
               C(1, 1, 1), C(1, 1, 1), C(5, 1, 6), C(1, 1, 1), C(1, 1, 1)], ""))
    # unencodable output before / after the cut
    P.append(([C(0, 65, 1), C(1, 1, 1), C(0, 1400, 40), C(1, 1, 1)], ""))
    P.append(([C(5, 1, 0), C(1, 1, 3), C(5, 1, 3), C(0, 1400, 40), C(1, 1, 1)], "q\n"))
    return P


@register("C02")
def check_c02(pid, tier, seed, replay):
    ck = Check(pid, tier, seed, "model_checking")
    build_harness()
    ck.assumptions = [
        "oracle: HyMachine.tla (reference semantics); HyOptimize.tla models both levels and TLC checks it refines HyMachine for every program of the bounded slices (with a small jump budget so that exceeding it lies inside the bound)",
        "the real budget (100) is not compared: observations are judged against the reference behaviour, which does not depend on it",
        "non-terminating programs are compared for prefix-compatibility under a step / time cap",
    ]
    if replay:
        ck.write_evidence = False
        return M.do_replay_machine(ck, replay, classify=classify_c02)
    quick = tier == "quick"
    rng = random.Random(seed)
    # arithq / arith: every command kind with fractions, negatives and NaN, input-free - level 2 pre-executes
    # these programs completely, so the optimiser's private copies of the six commands are exercised throughout
    plan = [("opt1", 3, 12), ("opt2", 3, 14), ("io", 2, 10), ("arithq", 3, 8)] if quick else \
           [("opt1", 4, 14), ("opt2", 3, 16), ("io", 3, 12), ("control", 3, 14), ("arith", 3, 10)]
    for slice_, ml, steps in plan:
        cases, n = mc_opt(ck, slice_, ml if not (slice_ == "opt1" and not quick) else 3, steps, dump=True)
        # (R) every program of the slice through the real binary at -O0, -O1 and -O2
        sub = os.path.join(os.path.dirname(cases), "bin_cases.json")
        cap = 3000 if quick else 400000
        # programs still running at the step bound (mostly non-terminating loops) cost a time-out per run:
        # they get a short time-out and, in the quick tier, a smaller sample
        all_lines = [l for l in open(cases).read().split("\n") if l.strip()]
        looping = [l for l in all_lines if '"ending":"running"' in l]
        ending = [l for l in all_lines if '"ending":"running"' not in l]
        pick = ending if len(ending) <= cap else rng.sample(ending, cap)
        lcap = 80 if quick else 5000
        lpick = looping if len(looping) <= lcap else rng.sample(looping, lcap)
        if len(pick) == len(ending) and len(lpick) == len(looping):
            ck.cov["exhaustive"] = True
        else:
            ck.cov["vacuity"]["R_%s_sampled" % slice_] = {"terminating": [len(pick), len(ending)], "cut_at_bound": [len(lpick), len(looping)]}
        open(sub, "w").write("\n".join(pick) + "\n")
        obs = M.run_obs(ck, sub, slice_, levels="0,1,2", bound=steps + 10, timeout_ms=2500)
        M.validate_traces(ck, obs, 14, classify_c02, "R-%s" % slice_)
        if ck.enough():
            return ck.finish()
        if lpick:
            open(sub, "w").write("\n".join(lpick) + "\n")
            obs = M.run_obs(ck, sub, slice_ + "_loop", levels="0,1,2", bound=steps + 10, timeout_ms=250)
            M.validate_traces(ck, obs, 14, classify_c02, "R-%s-loops" % slice_)
        with open(cases) as f:
            f.readline()
            ck.sample(M.prog_text(json.loads(f.readline())["prog"]))
    if not quick:
        mc_opt(ck, "opt1", 4, 14, invs=("L1Eq", "L1Refines"), dump=False)
    # witnesses that the interesting situations are inside the bound
    for w in ("Reach_Bail", "Reach_FullPreExec", "Reach_BudgetBail", "Reach_RollbackDropsText"):
        mc_opt(ck, "opt2", 3, 14, invs=(w,), expect_violation=w)
    mc_opt(ck, "opt1", 3, 12, invs=("Reach_SharedSlotUsed",), expect_violation="Reach_SharedSlotUsed")
    # (T) loops beyond the real budget, reads in the middle, exits, shared slots ...
    gen = M.gen_cases(rng, 180 if quick else 5000)
    nfixed = len(M.gen_cases(random.Random(0), 0))
    # the fixed families (loops of 98..202 rounds ...) need a long reference run; the generated programs a shorter one
    tcases = [{"prog": p, "input": M.cps(i)} for p, i in loop_programs()] + gen[:nfixed]
    work = tmpdir("c02_T")
    cpath = os.path.join(work, "cases.json")
    M.write_cases(cpath, tcases)
    obs = M.run_obs(ck, cpath, "T", levels="0,1,2", bound=2200, timeout_ms=1500)
    M.validate_traces(ck, obs, 14, classify_c02, "T-families")
    cpath2 = os.path.join(work, "cases_gen.json")
    M.write_cases(cpath2, gen[nfixed:])
    obs = M.run_obs(ck, cpath2, "Tgen", levels="0,1,2", bound=700, timeout_ms=800)
    M.validate_traces(ck, obs, 14, classify_c02, "T-generated")
    tcases = tcases + gen[nfixed:]
    # label / conditional jump / return-jump stress without any I/O stack: level 2 pre-executes these
    # completely (or up to its budget), so every jump rule is exercised inside the speculation
    rj = [{"prog": M.retjump_soup(rng, rng.randint(6, 14)), "input": []} for _ in range(80 if quick else 3000)]
    rj += [{"prog": M.fwdjump_family(rng), "input": []} for _ in range(40 if quick else 1000)]
    rj += [{"prog": M.operand_family(rng), "input": []} for _ in range(80 if quick else 2000)]
    rj += [{"prog": M.selfret_family(rng), "input": []} for _ in range(30 if quick else 600)]
    rj += [{"prog": M.twolabel_family(rng), "input": []} for _ in range(30 if quick else 600)]
    rj += [{"prog": M.lastswitch_family(rng), "input": []} for _ in range(24 if quick else 500)]
    cpath3 = os.path.join(work, "cases_rj.json")
    M.write_cases(cpath3, rj)
    obs = M.run_obs(ck, cpath3, "Trj", levels="0,1,2", bound=500, timeout_ms=600)
    M.validate_traces(ck, obs, 14, classify_c02, "T-retjump")
    tcases = tcases + rj
    ck.cov["vacuity"]["T_programs"] = len(tcases)
    ck.cov["samples"] = ck.cov["samples"][:2]
    ck.sample({"program": M.prog_text(tcases[0]["prog"])[:300], "stdin": ""})
    ck.sample({"program": M.prog_text(tcases[len(tcases) // 2]["prog"])[:300]})
    mechanism_binding(ck, tcases[:250 if quick else 4000])
    ck.cov["rule"] = "M: HyOptimize refines HyMachine on every program of the slices; R: those programs through `hyeong run -O0/-O1/-O2`; T: loop/IO program families and seeded structured programs"
    return ck.finish()


# ------------------------------------------------------------------------------ C10
HVEXEC = M.HVEXEC
SENTINEL = b"SENTINEL-LINE-1\nSENTINEL-LINE-2\n"


def opt_child(args):
    """run optimize() only, in a child whose stdin is a file with a sentinel (shared offset), whose
    stdout/stderr are pipes and whose completion marker arrives on fd 3"""
    prog_file, level, sentinel_path, limit = args
    fin = open(sentinel_path, "rb")
    r, w = os.pipe()
    t0 = time.time()
    p = subprocess.Popen([HVEXEC, "optonly", "--prog", prog_file, "--level", str(level), "--fd", str(w)], stdin=fin,
                         stdout=subprocess.PIPE, stderr=subprocess.PIPE, pass_fds=(w,))
    os.close(w)
    timed_out = False
    try:
        out, err = p.communicate(timeout=limit)
    except subprocess.TimeoutExpired:
        p.kill()
        out, err = p.communicate()
        timed_out = True
    marker = b""
    os.set_blocking(r, False)
    try:
        while True:
            b = os.read(r, 65536)
            if not b:
                break
            marker += b
    except BlockingIOError:
        pass
    os.close(r)
    consumed = os.lseek(fin.fileno(), 0, os.SEEK_CUR)
    fin.close()
    ev = {"level": level, "stdin_consumed": consumed, "stdout": len(out), "stderr": len(err), "code": p.returncode,
          "timeout": timed_out, "ms": int((time.time() - t0) * 1000)}
    try:
        ev["marker"] = json.loads(marker.decode().strip().split("\n")[-1]) if marker.strip() else None
    except Exception:
        ev["marker"] = None
    return ev


@register("C10")
def check_c10(pid, tier, seed, replay):
    ck = Check(pid, tier, seed, "model_checking")
    build_harness()
    ck.assumptions = [
        "HyOptimize.tla wires pre-execution to the environment (stdin, process liveness) the way the code is wired; TLC checks NoEffects, BoundedWork and SpecTerminates for every program of the slices, and that dropping any of the three guards violates them",
        "on the real code, effects are observed from outside the process: shared file offset of stdin, bytes on the stdout/stderr pipes, completion marker on a side channel, exit status, wall clock",
        "'bounded by the program text' is checked as: speculative steps <= 10^4 * (commands+1)^2 (hook counter) and a wall-clock limit far above normal optimisation time",
    ]
    quick = tier == "quick"
    rng = random.Random(seed)
    work = tmpdir("c10")
    sentinel = os.path.join(work, "stdin.txt")
    open(sentinel, "wb").write(SENTINEL)

    def run_cases(cases, label):
        jobs = []
        for i, c in enumerate(cases):
            pf = os.path.join(work, "%s_%d.json" % (label, i))
            open(pf, "w").write(json.dumps(c["prog"]))
            for lvl in (0, 1, 2):
                jobs.append((pf, lvl, sentinel, 20))
        with cf.ThreadPoolExecutor(max_workers=14) as ex:
            res = list(ex.map(opt_child, jobs))
        for (pf, lvl, _, _), ev in zip(jobs, res):
            prog = json.load(open(pf))
            nn = len(prog)
            problems = []
            if ev["timeout"]:
                problems.append("did not finish within 20 s")
            if ev["stdin_consumed"] != 0:
                problems.append("read %d bytes of standard input" % ev["stdin_consumed"])
            if ev["stdout"] or ev["stderr"]:
                problems.append("wrote %d/%d bytes to stdout/stderr" % (ev["stdout"], ev["stderr"]))
            mk = ev["marker"]
            if not ev["timeout"]:
                if mk is None:
                    problems.append("process ended (status %s) before optimize returned" % ev["code"])
                elif "panic" in mk:
                    problems.append("optimize panicked: %s" % mk["panic"])
                elif mk["steps"] > 10000 * (nn + 1) ** 2:
                    problems.append("%d speculative steps for %d commands" % (mk["steps"], nn))
            if problems:
                ck.violation("%s optimize(level %d): %s :: program `%s`" % (label, lvl, "; ".join(problems), M.prog_text(prog)),
                             {"kind": "opt", "prog": prog, "level": lvl, "observed": ev})
        ck.cov["traces_validated_against_impl"] += len(jobs)
        return len(jobs)

    if replay:
        ck.write_evidence = False
        pl = json.load(open(replay))["payload"]
        run_cases([{"prog": pl["prog"]}], "replay")
        return ck.finish()
    # (M)
    for slice_, ml, steps in ([("io", 2, 10), ("opt2", 3, 14)] if quick else [("io", 3, 12), ("opt2", 3, 16), ("control", 3, 14)]):
        cases, n = mc_opt(ck, slice_, ml, steps, invs=("NoEff", "Bounded", "Terminates"), dump=True)
        lines = M.sample_lines(cases, 1500 if quick else 60000, rng)
        progs = [json.loads(l) for l in lines]
        run_cases(progs, "R-" + slice_)
        ck.sample(M.prog_text(progs[3]["prog"]))
        if ck.enough():
            return ck.finish()
    # each guard is needed: without it the specification itself violates the property
    mc_opt(ck, "opt2", 3, 14, guards='{"area", "budget"}', invs=("NoEff",), expect_violation="NoEff")
    mc_opt(ck, "io", 2, 10, guards='{"kind", "budget"}', invs=("NoEff",), expect_violation="NoEff")
    mc_opt(ck, "opt2", 3, 14, guards='{"kind", "area"}', invs=("Terminates",), expect_violation="Terminates")
    ck.cov["exhaustive"] = quick is False
    # (T) reads first thing, exits immediately, pops from 0/1/2 at every position of every kind, small-valued loops
    C, H = M.C, M.H
    T = []
    for s in (0, 1, 2):
        for k in (1, 2, 3, 4, 5):
            for h in (1, 2):
                T.append([C(5, 1, s), C(k, h, 3)])
                T.append([C(0, 1, 1), C(5, 1, s), C(0, 1, 1), C(k, h, 3)])
        T.append([C(5, 1, s, [63, 102, 0])])
        T.append([C(5, 1, s), C(0, 1, 1, [63, 102, 0])])
        T.append([C(5, 1, s), C(0, 1, 1, [33, 102, 33, 0, 104])])
        T.append([C(0, 1, 1), C(5, 2, s, [63, 0, 102])])
    T.append(M.infinite_a())
    T += [M.one_to_n(n) for n in (8, 100, 150, 1000)]
    # non-terminating loops whose values stay small, with every jump form: label loop, return-jump loop
    T.append([C(0, 1, 1), C(1, 1, 3, H(7)), C(1, 1, 3, [63, 107, 0]), C(0, 1, 3, H(13))])
    T.append([C(0, 1, 1, H(2)), C(1, 1, 4), C(0, 1, 1, H(2))])
    T.append([C(0, 1, 0, H(2)), C(0, 1, 0, H(2)), C(0, 1, 0, H(13))])
    T.append([C(0, 1, 2, H(4)), C(3, 1, 3), C(0, 1, 2, H(4))])
    # ... and the return jump that leads to the returning command itself
    T.append([C(0, 1, 1), C(1, 1, 3, H(7)), C(1, 1, 3, [63, 107, 113])])
    T.append([C(0, 1, 5), C(0, 1, 1), C(0, 1, 1), C(1, 1, 3, H(7)), C(1, 1, 4), C(5, 1, 3, [63, 107, 113])])
    tc = [{"prog": p} for p in T] + [{"prog": c["prog"]} for c in M.gen_cases(rng, 120 if quick else 3000)]
    tc += [{"prog": M.selfret_family(rng)} for _ in range(60 if quick else 1500)]
    run_cases(tc, "T")
    ck.cov["vacuity"]["T_programs"] = len(tc)
    ck.cov["rule"] = "M: NoEffects/BoundedWork/SpecTerminates on every program of the slices + guard-necessity; R/T: optimize() at levels 0-2 in an observed child process"
    return ck.finish()
