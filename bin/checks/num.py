"""C05, C06, C07, C09: the number layer (HyNumbers / NumCalc) - DESIGN 6."""
import json, os, subprocess, concurrent.futures as cf
from hvlib import *
from . import register

HVNUM = os.path.join(HBIN, "hv-num")

# which replay-case fields / trace events belong to which property
R_FIELDS = {
    "C05": {"ipair": None, "inew": None},
    "C06": {"rpair": {"add", "mul", "nega", "inva", "eq", "is_pos", "is_nan", "floor", "text", "construct"}, "rnew": None},
    "C07": {"rpair": {"cmp", "eq"}},
    "C09": {"itext": None, "rpair": {"text", "from_string"}},
}
R_MODES = {"C05": ["ipair", "misc"], "C06": ["rpair", "misc"], "C07": ["rpair"], "C09": ["misc", "rpair"]}
T_EVENTS = {
    "C05": {"iload", "inew", "iop2", "iop1", "igcd", "icmp", "iprobe"},
    "C06": {"rload", "rnew", "rfromint", "rop2", "rop1", "rprobe", "rcmp"},
    "C07": {"rcmp"},
    "C09": {"itext", "ifromtext", "rtext", "rfromtext"},
}
T_MIX = {"C05": "int", "C06": "rat", "C07": "cmp", "C09": "text"}


def mc_selfcheck(ck, bases):
    """(M) HyNumbers agrees with TLC's native integers for small bases"""
    for b, k in bases:
        cfg = write_cfg("gen/MC_HyNumbers_B%d.cfg" % b,
                        "SPECIFICATION Spec\nCONSTANTS\n  B = %d\n  K = %d\nINVARIANT Agree\nCHECK_DEADLOCK FALSE\n" % (b, k))
        r = tlc("MC_HyNumbers", cfg, workers=16, timeout=900, xss="512m")
        require_ok(r, "MC_HyNumbers B=%d" % b)
        ck.add_tlc(r)
        ck.cov["vacuity"]["MC_HyNumbers_B%d_pairs" % b] = r.distinct


def r_replay(ck, pid, mode, K, P, limbsel="all5"):
    """(R) TLC enumerates the operand space with expected results; hv-num replays into the real code"""
    work = tmpdir("num_%s_%s_%s" % (pid, mode, limbsel))
    cases = os.path.join(work, "cases.json")
    cfg = write_cfg("gen/MC_NumReplay_%s_%s_%s.cfg" % (pid, mode, limbsel),
                    'SPECIFICATION Spec\nCONSTANTS\n  B = 256\n  Mode = "%s"\n  K = %d\n  P = %d\n  LimbSel = "%s"\n'
                    'INVARIANT Dump\nINVARIANT OracleCanonical\nCHECK_DEADLOCK FALSE\n' % (mode, K, P, limbsel))
    n = [0]
    with open(cases, "w") as f:
        def take(t):
            if t[0] == "REPLAY":
                f.write(t[1] + "\n")
                n[0] += 1
        r = tlc("MC_NumReplay", cfg, workers=16, timeout=1800, xss="512m", on_tuple=take)
    require_ok(r, "MC_NumReplay " + mode)
    ck.add_tlc(r)
    p = subprocess.run([HVNUM, "replay", "--in", cases], stdout=subprocess.PIPE, text=True)
    if p.returncode != 0:
        raise ToolError("hv-num replay failed")
    done = None
    wanted = R_FIELDS[pid]
    counted = 0
    for line in p.stdout.split("\n"):
        if not line.strip():
            continue
        o = json.loads(line)
        if o.get("done"):
            done = o
            continue
        c = o["case"]
        kind = c["k"]
        if kind not in wanted:
            continue
        fails = o["mismatch"]
        if wanted[kind] is not None:
            fails = [m for m in fails if m.split(":")[0].split(" ")[0].split("(")[0] in wanted[kind] or m.startswith("panic")]
        if not fails:
            continue
        counted += 1
        sig = "R %s %s :: %s" % (kind, compact_case(c), "; ".join(fails)[:200])
        ck.violation(sig, {"kind": "rcase", "case": c, "mismatch": fails})
    if done is None or done["cases"] != n[0]:
        raise ToolError("replay incomplete: %r of %d" % (done, n[0]))
    ck.cov["traces_validated_against_impl"] += n[0]
    ck.cov["vacuity"]["R_%s_%s_K%d_cases" % (mode, limbsel, K)] = n[0]
    with open(cases) as f:
        ck.sample(json.loads(f.readline()))
    return n[0]


def compact_case(c):
    def iv(v):
        if isinstance(v, dict) and "mag" in v:
            x = 0
            for i, d in enumerate(v["mag"]):
                x += d << (8 * i)
            return str(-x if v["neg"] else x)
        if isinstance(v, dict) and v.get("nan"):
            return "NaN"
        if isinstance(v, dict) and "num" in v:
            return iv(v["num"]) + "/" + iv(v["den"])
        return json.dumps(v)
    keys = [k for k in ("a", "b", "n", "v", "base", "p", "q") if k in c]
    return " ".join("%s=%s" % (k, iv(c[k])) for k in keys)


def validate_trace(path):
    cfg = "Trace_NumCalc.cfg"
    r = tlc("Trace_NumCalc", cfg, env={"TRACE": path}, workers=1, timeout=3000, xss="1g", xmx="3g", deque=True)
    return r


def t_traces(ck, pid, jobs):
    """(T) random register histories recorded from the real code, validated by Trace_NumCalc"""
    work = tmpdir("numT_%s" % pid)
    files = []
    for (seed, events, maxlimbs) in jobs:
        path = os.path.join(work, "t_%d_%d.ndjson" % (seed, maxlimbs))
        p = subprocess.run([HVNUM, "record", "--seed", str(seed), "--events", str(events), "--maxlimbs", str(maxlimbs),
                            "--mix", T_MIX[pid], "--out", path])
        if p.returncode != 0:
            raise ToolError("hv-num record failed")
        files.append(path)
    total = 0
    with cf.ThreadPoolExecutor(max_workers=8) as ex:
        results = list(ex.map(validate_trace, files))
    for path, r in zip(files, results):
        events = [json.loads(l) for l in open(path)]
        end = [t for t in r.tuples if t[0] == "TRACE-END"]
        if not r.ok and not end:
            raise ToolError("Trace_NumCalc failed on %s: %s\n%s" % (path, r.error, r.raw_tail[-1500:]))
        if not end or end[0][1] != end[0][2] or end[0][2] != len(events):
            raise ToolError("trace not fully consumed: %r (%d events) %s" % (end, len(events), r.raw_tail[-800:]))
        ck.add_tlc(r)
        total += len(events)
        for t in r.tuples:
            if t[0] != "MISMATCH":
                continue
            idx = t[1]
            e = json.loads(t[2])
            ev = e.get("ev")
            if ev == "panic":
                inner = e.get("op", {}).get("ev")
                if inner not in T_EVENTS[pid]:
                    continue
            elif ev not in T_EVENTS[pid]:
                ck.cov.setdefault("mismatches_attributed_elsewhere", 0)
                ck.cov["mismatches_attributed_elsewhere"] += 1
                continue
            # history from the last reset up to the failing event
            start = idx - 1
            while start > 0 and events[start].get("ev") != "reset":
                start -= 1
            hist = events[start:idx]
            sig = "T %s %s :: event %d of seed-trace %s :: %s" % (ev, e.get("op", ""), idx, os.path.basename(path), t[2][:160])
            ck.violation(sig, {"kind": "trace", "events": hist, "expected": t[3] if len(t) > 3 else None})
        if len(ck.cov["samples"]) < 4:
            ck.sample(events[min(5, len(events) - 1)])
    ck.cov["traces_validated_against_impl"] += total
    ck.cov["vacuity"]["T_events"] = total


def do_replay(ck, pid, path):
    obj = json.load(open(path))
    pl = obj["payload"]
    work = tmpdir("num_replay_%s" % pid)
    if pl["kind"] == "rcase":
        f = os.path.join(work, "case.json")
        open(f, "w").write(json.dumps(pl["case"]) + "\n")
        p = subprocess.run([HVNUM, "replay", "--in", f], stdout=subprocess.PIPE, text=True)
        for line in p.stdout.split("\n"):
            if not line.strip():
                continue
            o = json.loads(line)
            if "mismatch" in o:
                ck.violation("R replay " + compact_case(o["case"]) + " :: " + "; ".join(o["mismatch"])[:200],
                             {"kind": "rcase", "case": o["case"], "mismatch": o["mismatch"]})
        ck.cov["traces_validated_against_impl"] += 1
        ck.sample(pl["case"])
    else:
        src = os.path.join(work, "in.ndjson")
        out = os.path.join(work, "out.ndjson")
        with open(src, "w") as f:
            for e in pl["events"]:
                f.write(json.dumps(e) + "\n")
        subprocess.run([HVNUM, "reexec", "--in", src, "--out", out], check=True)
        r = validate_trace(out)
        ck.add_tlc(r)
        events = [json.loads(l) for l in open(out)]
        for t in r.tuples:
            if t[0] == "MISMATCH":
                ck.violation("T replay event %d :: %s" % (t[1], t[2][:200]), {"kind": "trace", "events": events[:t[1]]})
        ck.cov["traces_validated_against_impl"] += len(events)
        ck.sample(events[-1])
    return ck.finish()


@register("C05", "C06", "C07", "C09")
def check(pid, tier, seed, replay):
    ck = Check(pid, tier, seed, "model_checking")
    build_harness()
    ck.assumptions = [
        "oracle: HyNumbers.tla evaluated by TLC at B=256; its agreement with native integers is model-checked for B in {2,3} (quick) / {2,3,4,10} (thorough)",
        "operands in validated traces are capped (a register that outgrows the cap is reloaded); 'any magnitude' beyond it is extrapolated from limb-uniform algorithms",
        "gcd / quotient / reduced-fraction results are judged by postconditions with recorded witnesses, falling back to the specification's own division when a witness does not check",
    ]
    if replay:
        ck.write_evidence = False
        return do_replay(ck, pid, replay)
    quick = tier == "quick"
    mc_selfcheck(ck, [(2, 3), (3, 3)] if quick else [(2, 3), (3, 3), (4, 3), (10, 2)])
    K, P = (2, 8) if quick else (3, 12)
    if pid == "C07" and not quick:
        P = 14
    for mode in R_MODES[pid]:
        r_replay(ck, pid, mode, K if mode == "ipair" else 2, P)
        if mode == "ipair":
            # longer operands over a reduced limb alphabet (interior zero limbs, long carry chains)
            if quick:
                r_replay(ck, pid, mode, 3, P, "z1f")
            else:
                r_replay(ck, pid, mode, 4, P, "zhf")
    ck.cov["exhaustive"] = True
    if ck.enough():
        return ck.finish()
    if quick:
        jobs = [(seed + i, 1500, ml) for i, ml in enumerate([2, 4, 4, 6])]
    else:
        jobs = [(seed + i, 3000, ml) for i, ml in enumerate([1, 2, 2, 3, 4, 4, 4, 6, 6, 8, 8, 8, 12, 4, 2, 6] * 2)]
    t_traces(ck, pid, jobs)
    if pid == "C07":
        # branch clause: a ? branch is taken iff the popped value is below the count, a ! branch iff it equals it.
        # Every behaviour of the control slice (branches against counts 0..4 on integers, fractions, negatives,
        # NaN) is replayed command by command through execute_one and judged by HyMachine's EvalArea.
        from . import machine
        cases, n = machine.mc_machine(ck, "control", 2 if quick else 3, 12)
        trace = machine.run_steps(ck, cases, "c07", maxsteps=18)
        machine.validate_traces(ck, trace, 12, lambda e, run, exp: "branch/jump differs from the definition (%s event)" % e.get("ev"), "R-branch")
        # nested ?/! trees evaluated on stacks with NaN at every depth (generated, beyond the enumeration bound)
        import random as _r
        rr = _r.Random(seed)
        fam = [{"prog": machine.area_pop_family(rr), "input": []} for _ in range(400 if quick else 6000)]
        work = tmpdir("c07_area")
        cp = os.path.join(work, "cases.json")
        machine.write_cases(cp, fam)
        trace = machine.run_steps(ck, cp, "c07area", maxsteps=40)
        machine.validate_traces(ck, trace, 12, lambda e, run, exp: "nested branch evaluation differs from the definition (%s event)" % e.get("ev"), "T-area")
    ck.cov["rule"] = ("R: every case of the TLC-enumerated operand space (exhaustive); T: one validated event per "
                      "recorded operation of random register histories")
    return ck.finish()
