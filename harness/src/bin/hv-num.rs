//! hv-num: binding of HyNumbers / NumCalc to src/number/{big_number,num}.rs
//!
//!   hv-num record --seed S --events N --maxlimbs M --out FILE   (T: histories -> ndjson)
//!   hv-num replay --in FILE                                      (R: TLC cases -> real code)
//!
//! `record` drives the real code with random register histories and logs, per operation,
//! the operands' register numbers and the internal representation of every result.
//! `replay` takes cases enumerated by TLC with the results the specification assigns and
//! compares them structurally with what the real code returns.

use hv::*;
use hyeong::number::big_number::BigNum;
use hyeong::number::num::Num;
use rand::rngs::StdRng;
use rand::{Rng, SeedableRng};
use serde_json::{json, Value};
use std::io::{BufRead, Write};

const BOUNDARY: [u32; 7] = [0, 1, 1 << 31, u32::MAX - 1, u32::MAX, 2, (1 << 31) - 1];

fn gen_limb(rng: &mut StdRng) -> u32 {
    if rng.gen_bool(0.55) {
        BOUNDARY[rng.gen_range(0..BOUNDARY.len())]
    } else if rng.gen_bool(0.3) {
        rng.gen_range(0..1000)
    } else {
        rng.gen()
    }
}

fn gen_limbs(rng: &mut StdRng, maxlimbs: usize) -> Vec<u32> {
    let n = if rng.gen_bool(0.5) {
        rng.gen_range(1..=2.min(maxlimbs))
    } else {
        rng.gen_range(1..=maxlimbs)
    };
    let mut v: Vec<u32> = (0..n).map(|_| gen_limb(rng)).collect();
    if rng.gen_bool(0.1) {
        // superfluous leading zero limbs in the source: from_vec must normalise
        v.push(0);
        if rng.gen_bool(0.3) {
            v.push(0);
        }
    }
    v
}

fn gen_isize(rng: &mut StdRng) -> isize {
    let b: [i128; 12] = [
        0,
        1,
        (1 << 31) - 1,
        1 << 31,
        (1 << 32) - 1,
        1 << 32,
        (1 << 32) + 1,
        (1 << 63) - 1,
        1 << 33,
        12345678901234,
        65536,
        255,
    ];
    let r = rng.gen_range(0..16);
    let m: i128 = if r < 12 {
        b[r]
    } else if r == 12 {
        // isize::MIN
        return isize::MIN;
    } else {
        (rng.gen::<u64>() >> rng.gen_range(0..64)) as i128 & ((1i128 << 63) - 1)
    };
    let v = if rng.gen_bool(0.5) { -m } else { m };
    v as isize
}

fn isize_src(n: isize) -> Value {
    let m = n.unsigned_abs() as u64;
    json!({"neg": n < 0, "mag": m.to_le_bytes().to_vec()})
}

fn mk_big(neg: bool, limbs: &[u32]) -> BigNum {
    let mut b = BigNum::from_vec(limbs.to_vec());
    if neg {
        b.minus();
    }
    b
}

fn abs(b: &BigNum) -> BigNum {
    let mut c = b.clone();
    if !c.is_pos() {
        c.minus();
    }
    c
}

/// Bezout witnesses x, y with x*a + y*b = gcd(a, b) for non-negative a, b,
/// computed with the implementation's own operators (checked by the spec, so
/// it does not matter who computes them).
fn bezout(a: &BigNum, b: &BigNum) -> (BigNum, BigNum) {
    let (mut r0, mut r1) = (a.clone(), b.clone());
    let (mut s0, mut s1) = (BigNum::one(), BigNum::zero());
    let (mut t0, mut t1) = (BigNum::zero(), BigNum::one());
    let mut guard = 0;
    while !r1.is_zero() && guard < 10000 {
        guard += 1;
        let q = &r0 / &r1;
        let r2 = &r0 - &(&q * &r1);
        let s2 = &s0 - &(&q * &s1);
        let t2 = &t0 - &(&q * &t1);
        r0 = r1;
        r1 = r2;
        s0 = s1;
        s1 = s2;
        t0 = t1;
        t1 = t2;
    }
    (s0, t0)
}

/// coprimality witnesses for a rational as stored: x*|up| + y*down = 1
fn rat_w(n: &Num) -> Value {
    let (up, down) = n.verif_parts();
    if down.is_zero() {
        return json!({"x": bn_json(&BigNum::zero()), "y": bn_json(&BigNum::zero())});
    }
    let (x, y) = bezout(&abs(up), down);
    json!({"x": bn_json(&x), "y": bn_json(&y)})
}

fn cmp_text(o: Option<std::cmp::Ordering>) -> &'static str {
    match o {
        Some(std::cmp::Ordering::Less) => "lt",
        Some(std::cmp::Ordering::Equal) => "eq",
        Some(std::cmp::Ordering::Greater) => "gt",
        None => "un",
    }
}

struct Recorder {
    out: Box<dyn Write>,
    n: usize,
}

impl Recorder {
    fn emit(&mut self, v: Value) {
        writeln!(self.out, "{}", v).unwrap();
        self.n += 1;
    }
}

fn src_to_big(v: &Value) -> BigNum {
    let bytes = json_bytes(&v["mag"]);
    mk_big(v["neg"].as_bool().unwrap(), &bytes_to_limbs(&bytes))
}

fn src_to_isize(v: &Value) -> isize {
    let bytes = json_bytes(&v["mag"]);
    let mut m: u64 = 0;
    for (i, b) in bytes.iter().enumerate().take(8) {
        m |= (*b as u64) << (8 * i);
    }
    if v["neg"].as_bool().unwrap() {
        (m as i128).wrapping_neg() as isize
    } else {
        m as isize
    }
}

fn us(v: &Value) -> usize {
    v.as_u64().unwrap_or(0) as usize
}

/// Apply one operation descriptor (an event without results) to the real code and
/// return the event(s) completed with the internal representation of every result.
fn apply(e: &Value, ri: &mut Vec<BigNum>, rr: &mut Vec<Num>) -> Vec<Value> {
    let mut ev = e.clone();
    for k in ["r", "rip", "q", "ca", "cb", "wx", "wy", "w", "v", "eq", "t", "iszero", "ispos", "isnan", "low", "floor"] {
        if let Some(o) = ev.as_object_mut() {
            o.remove(k);
        }
    }
    let kind = e["ev"].as_str().unwrap().to_string();
    let (x, y, d) = (us(&e["x"]), us(&e["y"]), us(&e["d"]));
    match kind.as_str() {
        "reset" => {
            for k in 0..4 {
                ri[k] = BigNum::zero();
                rr[k] = Num::zero();
            }
        }
        "iload" => {
            let b = src_to_big(&e["src"]);
            ev["r"] = bn_json(&b);
            ri[d] = b;
        }
        "inew" => {
            let b = BigNum::new(src_to_isize(&e["src"]));
            ev["r"] = bn_json(&b);
            ri[d] = b;
        }
        "iop2" => {
            let op = e["op"].as_str().unwrap();
            let (a, b) = (ri[x].clone(), ri[y].clone());
            let mut ip = a.clone();
            let pure = match op {
                "add" => {
                    ip += &b;
                    &a + &b
                }
                "sub" => {
                    ip -= &b;
                    &a - &b
                }
                "mul" => {
                    ip *= &b;
                    &a * &b
                }
                "div" => {
                    ip /= &b;
                    &a / &b
                }
                _ => {
                    ip %= &b;
                    &a % &b
                }
            };
            ev["r"] = bn_json(&pure);
            ev["rip"] = bn_json(&ip);
            if op == "rem" {
                ev["q"] = bn_json(&(&a / &b));
            }
            ri[d] = pure;
        }
        "igcd" => {
            let (a, b) = (ri[x].clone(), ri[y].clone());
            let g = BigNum::gcd(&a, &b);
            ev["r"] = bn_json(&g);
            if !g.is_zero() {
                let ga = abs(&g);
                let ca = abs(&(&a / &ga));
                let cb = abs(&(&b / &ga));
                let (wx, wy) = bezout(&ca, &cb);
                ev["ca"] = bn_json(&ca);
                ev["cb"] = bn_json(&cb);
                ev["wx"] = bn_json(&wx);
                ev["wy"] = bn_json(&wy);
            }
            ri[d] = g;
        }
        "iop1" => {
            let a = ri[x].clone();
            if e["op"] == "neg" {
                let pure = -&a;
                let mut ip = a.clone();
                ip.minus();
                ev["r"] = bn_json(&pure);
                ev["rip"] = bn_json(&ip);
                ri[d] = pure;
            } else {
                let mut ip = BigNum::zero();
                ip.set_copy(&a);
                ev["r"] = bn_json(&a);
                ev["rip"] = bn_json(&ip);
                ri[d] = a;
            }
        }
        "icmp" => {
            ev["v"] = json!(cmp_text(ri[x].partial_cmp(&ri[y])));
            ev["eq"] = json!(ri[x] == ri[y]);
        }
        "itext" => {
            let t = ri[x].to_string_base(us(&e["base"])).unwrap();
            ev["t"] = json!(text_cps(&t));
        }
        "ifromtext" => {
            let base = us(&e["base"]);
            let t = ri[x].to_string_base(base).unwrap();
            let back = BigNum::from_string_base(t, base).unwrap();
            ev["r"] = bn_json(&back);
            ri[d] = back;
        }
        "iprobe" => {
            let a = &ri[x];
            ev["iszero"] = json!(a.is_zero());
            ev["ispos"] = json!(a.is_pos());
            ev["low"] = json!(a.to_int().to_le_bytes().to_vec());
        }
        "rload" => {
            let n = Num::from_big_num(src_to_big(&e["up"]), src_to_big(&e["down"]));
            ev["r"] = num_json(&n);
            ev["w"] = rat_w(&n);
            rr[d] = n;
        }
        "rnew" => {
            let n = Num::new(src_to_isize(&e["n"]), src_to_isize(&e["m"]) as usize);
            ev["r"] = num_json(&n);
            ev["w"] = rat_w(&n);
            rr[d] = n;
        }
        "rfromint" => {
            let n = Num::from_num(src_to_isize(&e["n"]));
            ev["r"] = num_json(&n);
            rr[d] = n;
        }
        "rop2" => {
            let (a, b) = (rr[x].clone(), rr[y].clone());
            let mut ip = a.clone();
            let pure = if e["op"] == "radd" {
                ip += &b;
                &a + &b
            } else {
                ip *= &b;
                &a * &b
            };
            ev["r"] = num_json(&pure);
            ev["rip"] = num_json(&ip);
            ev["w"] = rat_w(&pure);
            rr[d] = pure;
        }
        "rop1" => {
            let a = rr[x].clone();
            let op = e["op"].as_str().unwrap();
            if op == "rneg" {
                let pure = -&a;
                let mut ip = a.clone();
                ip.minus();
                ev["r"] = num_json(&pure);
                ev["rip"] = num_json(&ip);
                rr[d] = pure;
            } else if op == "rflip" {
                let mut ip = a.clone();
                ip.flip();
                ev["r"] = num_json(&ip);
                rr[d] = ip;
            } else {
                let mut ip = Num::one();
                ip.set_copy(&a);
                ev["r"] = num_json(&a);
                ev["rip"] = num_json(&ip);
                rr[d] = a;
            }
        }
        "rcmp" => {
            ev["v"] = json!(cmp_text(rr[x].partial_cmp(&rr[y])));
            ev["eq"] = json!(rr[x] == rr[y]);
        }
        "rprobe" => {
            let a = &rr[x];
            ev["isnan"] = json!(a.is_nan());
            ev["ispos"] = json!(a.is_pos());
            ev["floor"] = if a.is_pos() { bn_json(&a.floor()) } else { json!({"neg":false,"mag":[],"limbs":1}) };
        }
        "rtext" => {
            ev["t"] = json!(text_cps(&rr[x].to_string()));
        }
        "rfromtext" => {
            let back = Num::from_string(rr[x].to_string());
            ev["r"] = num_json(&back);
            rr[d] = back;
        }
        _ => {}
    }
    vec![ev]
}

fn big_src(b: &BigNum) -> Value {
    let (pos, l) = b.verif_parts();
    src_json(!pos, l)
}

/// random operation descriptor; `mix` biases the choice (int | rat | cmp | text | both)
fn gen_desc(rng: &mut StdRng, ri: &[BigNum], rr: &[Num], maxlimbs: usize, mix: &str) -> Option<Value> {
    let x = rng.gen_range(0..4usize);
    let y = if rng.gen_bool(0.15) { x } else { rng.gen_range(0..4usize) };
    let d = rng.gen_range(0..4usize);
    let c = rng.gen_range(0..100);
    let do_int = match mix {
        "int" => true,
        "rat" | "cmp" => false,
        _ => rng.gen_bool(0.5),
    };
    if do_int {
        let (c_load, c_new, c_op2, c_gcd, c_op1, c_cmp, c_text) = if mix == "text" { (30, 35, 45, 45, 50, 50, 98) } else { (22, 27, 62, 70, 78, 86, 96) };
        if c < c_load {
            let limbs = gen_limbs(rng, maxlimbs);
            Some(json!({"ev":"iload","d":d,"src":src_json(rng.gen_bool(0.5), &limbs)}))
        } else if c < c_new {
            Some(json!({"ev":"inew","d":d,"src":isize_src(gen_isize(rng))}))
        } else if c < c_op2 {
            let ops = ["add", "sub", "mul", "div", "rem"];
            let op = ops[rng.gen_range(0..ops.len())];
            if (op == "div" || op == "rem") && ri[y].is_zero() {
                return None;
            }
            Some(json!({"ev":"iop2","op":op,"x":x,"y":y,"d":d}))
        } else if c < c_gcd {
            Some(json!({"ev":"igcd","x":x,"y":y,"d":d}))
        } else if c < c_op1 {
            Some(json!({"ev":"iop1","op": if rng.gen_bool(0.7) {"neg"} else {"copy"},"x":x,"d":d}))
        } else if c < c_cmp {
            Some(json!({"ev":"icmp","x":x,"y":y}))
        } else if c < c_text {
            let base = if rng.gen_bool(0.4) { [2usize, 10, 16, 36][rng.gen_range(0..4)] } else { rng.gen_range(2..=36usize) };
            if rng.gen_bool(0.5) {
                Some(json!({"ev":"itext","x":x,"base":base}))
            } else {
                Some(json!({"ev":"ifromtext","x":x,"base":base,"d":d}))
            }
        } else {
            Some(json!({"ev":"iprobe","x":x}))
        }
    } else {
        let (c_load, c_new, c_near, c_op2, c_op1, c_cmp, c_probe) = match mix {
            "cmp" => (20, 28, 50, 58, 62, 98, 100),
            "text" => (25, 35, 35, 45, 50, 52, 54),
            _ => (22, 28, 28, 58, 72, 82, 90),
        };
        if c < c_load {
            // fraction with a planted common factor and any sign pattern
            let half = (maxlimbs / 2).max(1);
            let f = mk_big(false, &gen_limbs(rng, half));
            let mut up = mk_big(rng.gen_bool(0.5), &gen_limbs(rng, half));
            let mut down = mk_big(rng.gen_bool(0.4), &gen_limbs(rng, half));
            if rng.gen_bool(0.6) && !f.is_zero() {
                up = &up * &f;
                down = &down * &f;
            }
            if down.is_zero() && up.is_zero() {
                return None;
            }
            Some(json!({"ev":"rload","d":d,"up":big_src(&up),"down":big_src(&down)}))
        } else if c < c_new {
            let a = if rng.gen_bool(0.7) { rng.gen_range(-40isize..40) } else { gen_isize(rng) };
            let b = if rng.gen_bool(0.7) { rng.gen_range(0usize..40) } else { gen_isize(rng).unsigned_abs() >> 1 };
            if (a == 0 && b == 0) || a == isize::MIN {
                return None;
            }
            if rng.gen_bool(0.3) {
                Some(json!({"ev":"rfromint","d":d,"n":isize_src(a)}))
            } else {
                Some(json!({"ev":"rnew","d":d,"n":isize_src(a),"m":isize_src(b as isize)}))
            }
        } else if c < c_near {
            // a value next to register x: same numerator over denominator +- 1, or numerator +- 1
            let (up, down) = rr[x].verif_parts();
            if down.is_zero() {
                return None;
            }
            let one = BigNum::one();
            let (nu, nd) = match rng.gen_range(0..4) {
                0 => (up.clone(), down + &one),
                1 => (up + &one, down.clone()),
                2 => (up - &one, down.clone()),
                _ => (up.clone(), down.clone()),
            };
            if nd.is_zero() {
                return None;
            }
            Some(json!({"ev":"rload","d":d,"up":big_src(&nu),"down":big_src(&nd)}))
        } else if c < c_op2 {
            Some(json!({"ev":"rop2","op": if rng.gen_bool(0.5) {"radd"} else {"rmul"},"x":x,"y":y,"d":d}))
        } else if c < c_op1 {
            let ops = ["rneg", "rflip", "rcopy"];
            Some(json!({"ev":"rop1","op":ops[rng.gen_range(0..3)],"x":x,"d":d}))
        } else if c < c_cmp {
            Some(json!({"ev":"rcmp","x":x,"y":y}))
        } else if c < c_probe {
            Some(json!({"ev":"rprobe","x":x}))
        } else if rng.gen_bool(0.5) {
            Some(json!({"ev":"rtext","x":x}))
        } else {
            Some(json!({"ev":"rfromtext","x":x,"d":d}))
        }
    }
}

fn run_desc(rec: &mut Recorder, desc: &Value, ri: &mut Vec<BigNum>, rr: &mut Vec<Num>) {
    // the operation runs on a scratch thread that owns copies of the registers; on success the
    // registers are taken back, on a time-out the thread is abandoned and the history restarts
    use std::sync::mpsc;
    let (tx, rx) = mpsc::channel();
    let (mut ri2, mut rr2, d2) = (ri.clone(), rr.clone(), desc.clone());
    std::thread::spawn(move || {
        let r = guarded(|| apply(&d2, &mut ri2, &mut rr2));
        let _ = tx.send((r, ri2, rr2));
    });
    let outcome = rx.recv_timeout(std::time::Duration::from_secs(10));
    match outcome {
        Ok((Ok(evs), ri2, rr2)) => {
            *ri = ri2;
            *rr = rr2;
            for e in evs {
                rec.emit(e);
            }
        }
        other => {
            let msg = match other {
                Ok((Err(m), _, _)) => m,
                _ => "hang: the operation did not return within 10 s".to_string(),
            };
            rec.emit(json!({"ev":"panic","msg":msg,"op":desc}));
            // registers may be in any state: restart the history
            let reset = json!({"ev":"reset"});
            for e in apply(&reset, ri, rr) {
                rec.emit(e);
            }
        }
    }
}

fn record(seed: u64, events: usize, maxlimbs: usize, out: &str, mix: &str, cap: usize) {
    let mut rng = StdRng::seed_from_u64(seed);
    let mut rec = Recorder {
        out: Box::new(std::io::BufWriter::new(std::fs::File::create(out).unwrap())),
        n: 0,
    };
    let mut ri: Vec<BigNum> = (0..4).map(|_| BigNum::zero()).collect();
    let mut rr: Vec<Num> = (0..4).map(|_| Num::zero()).collect();
    rec.emit(json!({"ev": "reset", "seed": seed}));
    while rec.n < events {
        if rec.n % 240 == 239 {
            run_desc(&mut rec, &json!({"ev":"reset"}), &mut ri, &mut rr);
            continue;
        }
        let desc = match guarded(|| gen_desc(&mut rng, &ri, &rr, maxlimbs, mix)) {
            Ok(Some(d)) => d,
            _ => continue,
        };
        run_desc(&mut rec, &desc, &mut ri, &mut rr);
        // keep TLC's digit arithmetic affordable: a register that outgrew the cap is reloaded
        for k in 0..4 {
            if ri[k].verif_parts().1.len() > cap {
                let limbs = gen_limbs(&mut rng, maxlimbs);
                let d = json!({"ev":"iload","d":k,"src":src_json(rng.gen_bool(0.5), &limbs)});
                run_desc(&mut rec, &d, &mut ri, &mut rr);
            }
            let big = {
                let (u, dn) = rr[k].verif_parts();
                u.verif_parts().1.len() > cap || dn.verif_parts().1.len() > cap
            };
            if big {
                let p = rng.gen_range(-30isize..30);
                let q = rng.gen_range(1usize..30);
                let d = json!({"ev":"rnew","d":k,"n":isize_src(p),"m":isize_src(q as isize)});
                run_desc(&mut rec, &d, &mut ri, &mut rr);
            }
        }
    }
    rec.out.flush().unwrap();
    std::process::exit(0); // do not wait for abandoned workers
}

/// re-execute a recorded history (its operation descriptors) against the current code
fn reexec(input: &str, out: &str) {
    let f = std::io::BufReader::new(std::fs::File::open(input).unwrap());
    let mut rec = Recorder {
        out: Box::new(std::io::BufWriter::new(std::fs::File::create(out).unwrap())),
        n: 0,
    };
    let mut ri: Vec<BigNum> = (0..4).map(|_| BigNum::zero()).collect();
    let mut rr: Vec<Num> = (0..4).map(|_| Num::zero()).collect();
    for line in f.lines() {
        let line = line.unwrap();
        if line.trim().is_empty() {
            continue;
        }
        let e: Value = serde_json::from_str(&line).unwrap();
        if e["ev"] == "panic" {
            run_desc(&mut rec, &e["op"], &mut ri, &mut rr);
        } else {
            run_desc(&mut rec, &e, &mut ri, &mut rr);
        }
    }
    rec.out.flush().unwrap();
    std::process::exit(0);
}

/// R direction: every line is a case enumerated by TLC with the specification's results.
/// Each case runs on a worker thread with a deadline: an operation of the code under test that does
/// not return is data (a mismatch), not a reason for the harness to hang.
fn replay(input: &str) {
    use std::sync::mpsc;
    let f = std::io::BufReader::new(std::fs::File::open(input).unwrap());
    let mut n = 0usize;
    let mut bad = 0usize;
    let stdout = std::io::stdout();
    let mut out = stdout.lock();
    let spawn_worker = || {
        let (tx_req, rx_req) = mpsc::channel::<Value>();
        let (tx_res, rx_res) = mpsc::channel::<Vec<String>>();
        std::thread::spawn(move || {
            for c in rx_req {
                let r = match guarded(|| replay_case(&c)) {
                    Ok(v) => v,
                    Err(m) => vec![format!("panic: {}", m)],
                };
                if tx_res.send(r).is_err() {
                    break;
                }
            }
        });
        (tx_req, rx_res)
    };
    let (mut tx, mut rx) = spawn_worker();
    for line in f.lines() {
        let line = line.unwrap();
        if line.trim().is_empty() {
            continue;
        }
        let c: Value = serde_json::from_str(&line).unwrap();
        n += 1;
        tx.send(c.clone()).unwrap();
        let fails = match rx.recv_timeout(std::time::Duration::from_secs(10)) {
            Ok(v) => v,
            Err(_) => {
                // abandon the stuck worker and continue with a fresh one
                let (t2, r2) = spawn_worker();
                tx = t2;
                rx = r2;
                vec!["hang: an operation did not return within 10 s".to_string()]
            }
        };
        if !fails.is_empty() {
            bad += 1;
            writeln!(out, "{}", json!({"mismatch": fails, "case": c})).unwrap();
        }
    }
    writeln!(out, "{}", json!({"done": true, "cases": n, "bad": bad})).unwrap();
    out.flush().unwrap();
    std::process::exit(0); // do not wait for abandoned workers
}

fn replay_case(c: &Value) -> Vec<String> {
    let mut f = Vec::new();
    let k = c["k"].as_str().unwrap();
    match k {
        "ipair" => {
            let a = bn_from_spec(&c["a"]);
            let b = bn_from_spec(&c["b"]);
            if !bn_matches_spec(&a, &c["a"]) {
                f.push("construct a".into());
            }
            let chk = |name: &str, got: &BigNum, f: &mut Vec<String>| {
                if !bn_matches_spec(got, &c[name]) {
                    f.push(format!("{}: got {}", name, bn_json(got)));
                }
            };
            chk("add", &(&a + &b), &mut f);
            chk("sub", &(&a - &b), &mut f);
            chk("mul", &(&a * &b), &mut f);
            chk("nega", &(-&a), &mut f);
            let mut t = a.clone();
            t += &b;
            chk("add", &t, &mut f);
            let mut t = a.clone();
            t -= &b;
            chk("sub", &t, &mut f);
            let mut t = a.clone();
            t *= &b;
            chk("mul", &t, &mut f);
            let mut t = a.clone();
            t.minus();
            chk("nega", &t, &mut f);
            if !c["div"].is_null() {
                chk("div", &(&a / &b), &mut f);
                chk("rem", &(&a % &b), &mut f);
                let mut t = a.clone();
                t /= &b;
                chk("div", &t, &mut f);
                let mut t = a.clone();
                t %= &b;
                chk("rem", &t, &mut f);
            }
            let g = BigNum::gcd(&a, &b);
            let mut ga = g.clone();
            if !ga.is_pos() {
                ga.minus();
            }
            chk("gcd", &ga, &mut f);
            if cmp_text(a.partial_cmp(&b)) != c["cmp"].as_str().unwrap() {
                f.push(format!("cmp: got {}", cmp_text(a.partial_cmp(&b))));
            }
            if (a == b) != c["eq"].as_bool().unwrap() {
                f.push("eq".into());
            }
        }
        "inew" => {
            // n given as sign + magnitude digits
            let bytes = json_bytes(&c["n"]["mag"]);
            let mut m: u64 = 0;
            for (i, b) in bytes.iter().enumerate() {
                m |= (*b as u64) << (8 * i);
            }
            let neg = c["n"]["neg"].as_bool().unwrap();
            let n: isize = if neg { (m as i128).wrapping_neg() as isize } else { m as isize };
            let b = BigNum::new(n);
            if !bn_matches_spec(&b, &c["n"]) {
                f.push(format!("new({}): got {}", n, bn_json(&b)));
            }
        }
        "itext" => {
            let v = bn_from_spec(&c["v"]);
            let base = c["base"].as_u64().unwrap() as usize;
            let want = cps_text(&c["t"]);
            match v.to_string_base(base) {
                Ok(t) => {
                    if t != want {
                        f.push(format!("to_string_base: got {:?}", t));
                    }
                }
                Err(e) => f.push(format!("to_string_base error {}", e)),
            }
            match BigNum::from_string_base(want, base) {
                Ok(b) => {
                    if !bn_matches_spec(&b, &c["v"]) {
                        f.push(format!("from_string_base: got {}", bn_json(&b)));
                    }
                }
                Err(e) => f.push(format!("from_string_base error {}", e)),
            }
        }
        "rpair" => {
            let a = num_from_spec(&c["a"]);
            let b = num_from_spec(&c["b"]);
            if !num_matches_spec(&a, &c["a"]) {
                f.push(format!("construct a: got {}", num_json(&a)));
            }
            let chk = |name: &str, got: &Num, f: &mut Vec<String>| {
                if !num_matches_spec(got, &c[name]) {
                    f.push(format!("{}: got {}", name, num_json(got)));
                }
            };
            chk("add", &(&a + &b), &mut f);
            chk("mul", &(&a * &b), &mut f);
            chk("nega", &(-&a), &mut f);
            let mut t = a.clone();
            t += &b;
            chk("add", &t, &mut f);
            let mut t = a.clone();
            t *= &b;
            chk("mul", &t, &mut f);
            let mut t = a.clone();
            t.minus();
            chk("nega", &t, &mut f);
            let mut t = a.clone();
            t.flip();
            chk("inva", &t, &mut f);
            if cmp_text(a.partial_cmp(&b)) != c["cmp"].as_str().unwrap() {
                f.push(format!("cmp: got {}", cmp_text(a.partial_cmp(&b))));
            }
            if c["cmp"].as_str().unwrap() != "un" && (a == b) != (c["cmp"].as_str().unwrap() == "eq") {
                f.push("eq".into());
            }
            if a.is_pos() != c["isposa"].as_bool().unwrap() {
                f.push("is_pos".into());
            }
            if a.is_nan() != c["isnana"].as_bool().unwrap() {
                f.push("is_nan".into());
            }
            if c["isposa"].as_bool().unwrap() && !bn_matches_spec(&a.floor(), &c["floora"]) {
                f.push(format!("floor: got {}", bn_json(&a.floor())));
            }
            let t = a.to_string();
            if t != cps_text(&c["texta"]) {
                f.push(format!("text: got {:?}", t));
            }
            let back = Num::from_string(cps_text(&c["texta"]));
            if !num_matches_spec(&back, &c["a"]) {
                f.push(format!("from_string: got {}", num_json(&back)));
            }
        }
        "rnew" => {
            // Num::new(p, q) for small native p, q (q > 0)
            let p = c["p"].as_i64().unwrap() as isize;
            let q = c["q"].as_u64().unwrap() as usize;
            let n = Num::new(p, q);
            if !num_matches_spec(&n, &c["r"]) {
                f.push(format!("Num::new({},{}): got {}", p, q, num_json(&n)));
            }
        }
        _ => f.push(format!("unknown case kind {}", k)),
    }
    f
}

fn arg(args: &[String], name: &str) -> Option<String> {
    args.iter().position(|a| a == name).and_then(|i| args.get(i + 1).cloned())
}

fn main() {
    quiet_panics();
    let args: Vec<String> = std::env::args().collect();
    match args.get(1).map(|s| s.as_str()) {
        Some("record") => {
            let seed = arg(&args, "--seed").and_then(|s| s.parse().ok()).unwrap_or(1);
            let events = arg(&args, "--events").and_then(|s| s.parse().ok()).unwrap_or(1000);
            let maxlimbs = arg(&args, "--maxlimbs").and_then(|s| s.parse().ok()).unwrap_or(4);
            let out = arg(&args, "--out").expect("--out");
            let mix = arg(&args, "--mix").unwrap_or_else(|| "both".into());
            let cap = arg(&args, "--cap").and_then(|s| s.parse().ok()).unwrap_or(2 * maxlimbs);
            record(seed, events, maxlimbs, &out, &mix, cap);
        }
        Some("reexec") => {
            reexec(&arg(&args, "--in").expect("--in"), &arg(&args, "--out").expect("--out"));
        }
        Some("replay") => {
            let input = arg(&args, "--in").expect("--in");
            replay(&input);
        }
        _ => {
            eprintln!("usage: hv-num record|replay ...");
            std::process::exit(2);
        }
    }
}
