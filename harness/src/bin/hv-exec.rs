//! hv-exec: binding of HyMachine / HyOptimize / HyCompile to the interpreter, optimiser and compiler
//!
//!   hv-exec child --prog FILE --maxsteps N --maxlimbs M      one program, step by step (internal)
//!   hv-exec steps --in CASES --out TRACE [--maxsteps N]      per-command traces of execute_one (level 0)
//!   hv-exec obs   --in CASES --out TRACE --hyeong BIN --levels 0,1,2 [--rlib LIB --work DIR --clevels 0,1,2]
//!                                                             whole-run observations: real binary, compiled programs
//!   hv-exec emit  --prog FILE --level L                      print compile::build_source (internal)
//!   hv-exec optonly --prog FILE --level L                    run optimize() only, report (internal, C10)
//!
//! A pop from stack 1/2 calls process::exit inside the library, so every program runs in a
//! child process; the parent adds how the child ended.

use hv::prog::*;
use hv::procs::*;
use hv::*;
use hyeong::core::code::UnOptCode;
use hyeong::core::state::{State, UnOptState};
use hyeong::core::{compile, execute, optimize};
use hyeong::util::io::CustomWriter;
use serde_json::{json, Value};
use std::io::{BufRead, Read, Write};
use std::process::{Command, Stdio};
use std::sync::atomic::{AtomicUsize, Ordering};
use std::sync::{Arc, Mutex};
use std::time::{Duration, Instant};

fn arg(args: &[String], name: &str) -> Option<String> {
    args.iter().position(|a| a == name).and_then(|i| args.get(i + 1).cloned())
}

fn emit(v: Value) {
    println!("{}", v);
}

fn project_state(state: &mut UnOptState) -> (Value, usize) {
    let mut idx = state.get_all_stack_index();
    idx.sort_unstable();
    let mut st = Vec::new();
    let mut maxl = 0usize;
    for i in idx {
        let s = state.get_stack(i);
        if s.is_empty() {
            continue;
        }
        let vals: Vec<Value> = s
            .iter()
            .map(|n| {
                let (u, d) = n.verif_parts();
                maxl = maxl.max(u.verif_parts().1.len()).max(d.verif_parts().1.len());
                num_compact(n)
            })
            .collect();
        st.push(json!([i, vals]));
    }
    (Value::Array(st), maxl)
}

fn child(prog_file: &str, maxsteps: usize, maxlimbs: usize) {
    let cmds: Value = serde_json::from_str(&std::fs::read_to_string(prog_file).unwrap()).unwrap();
    let codes: Vec<UnOptCode> = codes_of(&cmds);
    let n = codes.len();
    let mut state = UnOptState::new();
    for c in codes {
        state.push_code(c);
    }
    // the program's output is captured; at a program-requested exit the library flushes both
    let mut out = CustomWriter::new(|s| {
        emit(json!({"ev":"flush","s":1,"t":text_cps(&s)}));
        Ok(())
    });
    let mut err = CustomWriter::new(|s| {
        emit(json!({"ev":"flush","s":2,"t":text_cps(&s)}));
        Ok(())
    });
    let mut pc = 0usize;
    let mut steps = 0usize;
    while pc < n {
        if steps >= maxsteps {
            emit(json!({"ev":"cut","why":"steps"}));
            return;
        }
        steps += 1;
        let r = guarded(|| execute::execute_one(&mut std::io::stdin(), &mut out, &mut err, state.clone(), pc));
        match r {
            Err(m) => {
                emit(json!({"ev":"panic","pc":pc,"msg":m}));
                return;
            }
            Ok(Err(e)) => {
                emit(json!({"ev":"error","pc":pc,"msg":e.get_msg(),
                            "out":text_cps(&out.to_string().unwrap_or_default()),"err":text_cps(&err.to_string().unwrap_or_default())}));
                return;
            }
            Ok(Ok((s, next))) => {
                state = s;
                let (st, maxl) = project_state(&mut state);
                emit(json!({"ev":"step","pc":pc,"next":next,"cur":state.current_stack(),"st":st,
                            "last":state.get_latest_loc().map(|x| x as i64).unwrap_or(-1),
                            "out":text_cps(&out.to_string().unwrap_or_default()),"err":text_cps(&err.to_string().unwrap_or_default())}));
                if maxl > maxlimbs {
                    emit(json!({"ev":"cut","why":"size"}));
                    return;
                }
                pc = next;
            }
        }
    }
    emit(json!({"ev":"end"}));
}

fn input_bytes(case: &Value) -> Vec<u8> {
    if let Some(b) = case.get("input_bytes") {
        return json_bytes(b);
    }
    cps_text(&case["input"]).into_bytes()
}

fn steps(input: &str, out: &str, maxsteps: usize, maxlimbs: usize, work: &str, jobs: usize) {
    let cases = read_cases(input);
    let exe = std::env::current_exe().unwrap();
    let work = work.to_string();
    std::fs::create_dir_all(&work).unwrap();
    let res = par_map(cases, jobs, move |i, case| {
        let pf = format!("{}/p{}_{}.json", work, std::process::id(), i);
        std::fs::write(&pf, case["prog"].to_string()).unwrap();
        let mut cmd = Command::new(&exe);
        cmd.args(["child", "--prog", &pf, "--maxsteps", &maxsteps.to_string(), "--maxlimbs", &maxlimbs.to_string()]);
        let (o, _e, code, timed_out) = run_proc(&mut cmd, &input_bytes(case), Duration::from_secs(20), 64 << 20);
        let _ = std::fs::remove_file(&pf);
        let mut evs = vec![json!({"ev":"reset","prog":case["prog"],"input":case["input"]})];
        let mut flush_out: Option<Value> = None;
        let mut flush_err: Option<Value> = None;
        let mut terminal = false;
        for line in String::from_utf8_lossy(&o).lines() {
            if let Ok(v) = serde_json::from_str::<Value>(line) {
                match v["ev"].as_str().unwrap_or("") {
                    "flush" => {
                        if v["s"] == 1 {
                            flush_out = Some(v["t"].clone());
                        } else {
                            flush_err = Some(v["t"].clone());
                        }
                    }
                    "end" | "cut" | "error" | "panic" => {
                        terminal = true;
                        evs.push(v);
                    }
                    _ => evs.push(v),
                }
            }
        }
        if timed_out {
            evs.push(json!({"ev":"timeout"}));
        } else if !terminal {
            // the library ended the process from inside a command
            evs.push(json!({"ev":"exited","code":code,"out":flush_out.unwrap_or(json!([])),"err":flush_err.unwrap_or(json!([])),
                            "flushed": true}));
        }
        evs
    });
    let mut w = std::io::BufWriter::new(std::fs::File::create(out).unwrap());
    for evs in res {
        for e in evs {
            writeln!(w, "{}", e).unwrap();
        }
    }
    w.flush().unwrap();
}

/// a run that was cut (time limit or output cap) keeps only a short, well-formed prefix of its output:
/// only prefix-compatibility can be claimed for it, and megabytes of looping output would swamp the traces
fn clip(out: Vec<u8>, cut: bool) -> Vec<u8> {
    if !cut || out.len() <= 4000 {
        return out;
    }
    let head = &out[..4000];
    match std::str::from_utf8(head) {
        Ok(_) => head.to_vec(),
        Err(e) => head[..e.valid_up_to()].to_vec(),
    }
}

/// strip the tool's own log lines: everything up to and including the last leading line that
/// starts with "==> " (the wording of the log lines is not relied upon)
fn after_running(stdout: &[u8]) -> (Vec<u8>, bool) {
    let mut pos = 0usize;
    let mut seen = false;
    loop {
        let rest = &stdout[pos..];
        if rest.starts_with("==> ".as_bytes()) || rest.starts_with("⮑".as_bytes()) {
            match rest.iter().position(|b| *b == b'\n') {
                Some(nl) => {
                    pos += nl + 1;
                    seen = true;
                }
                None => {
                    pos = stdout.len();
                    seen = true;
                    break;
                }
            }
        } else {
            break;
        }
    }
    (stdout[pos..].to_vec(), seen)
}

#[allow(clippy::too_many_arguments)]
fn obs(input: &str, out: &str, hyeong: &str, levels: Vec<u8>, clevels: Vec<u8>, rlib: Option<String>, work: &str, timeout_ms: u64, jobs: usize) {
    let cases = read_cases(input);
    let exe = std::env::current_exe().unwrap();
    let (work, hyeong) = (work.to_string(), hyeong.to_string());
    std::fs::create_dir_all(&work).unwrap();
    let res = par_map(cases, jobs, move |i, case| {
        let dir = format!("{}/o{}_{}", work, std::process::id(), i);
        std::fs::create_dir_all(&dir).unwrap();
        let text = match case.get("text") {
            Some(t) if t.is_string() => t.as_str().unwrap().to_string(),
            _ => program_text(&case["prog"]),
        };
        let file = format!("{}/p.hyeong", dir);
        std::fs::write(&file, text.as_bytes()).unwrap();
        let to = Duration::from_millis(timeout_ms);
        // one case may carry several stdin texts ("inputs"): compile once, run for each
        let inputs: Vec<(Value, Vec<u8>)> = match case.get("inputs") {
            Some(Value::Array(a)) => a.iter().map(|i| (i.clone(), cps_text(i).into_bytes())).collect(),
            _ => vec![(case["input"].clone(), input_bytes(case))],
        };
        // the text must denote the intended commands, otherwise the case belongs to the parser (C04)
        let parsed: Vec<Value> = hyeong::core::parse::parse(text.clone())
            .iter()
            .map(|c| {
                use hyeong::core::code::Code;
                json!({"k": c.get_type(), "h": c.get_hangul_count(), "d": c.get_dot_count()})
            })
            .collect();
        let intended: Vec<Value> = case["prog"].as_array().map(|a| a.iter().map(|c| json!({"k": c["k"], "h": c["h"], "d": c["d"]})).collect()).unwrap_or_default();
        let text_ok = case.get("text").map(|t| t.is_string()).unwrap_or(false) || parsed == intended;
        // compile stage (per level), independent of the input
        let mut compiled: Vec<(u8, Result<String, Value>)> = Vec::new();
        if let Some(rlib) = &rlib {
            let pf = format!("{}/prog.json", dir);
            std::fs::write(&pf, case["prog"].to_string()).unwrap();
            for l in &clevels {
                let how = format!("compiled-O{}", l);
                let mut cmd = Command::new(&exe);
                cmd.args(["emit", "--prog", &pf, "--level", &l.to_string()]);
                let (src, e, code, timed_out) = run_proc(&mut cmd, b"", Duration::from_secs(20), 64 << 20);
                if timed_out || code != 0 {
                    compiled.push((*l, Err(json!({"how": how, "stage": "emit", "code": code, "timeout": timed_out, "stderr": lossy_cps(&e), "panicked": false}))));
                    continue;
                }
                if src.starts_with(b"OPTIMIZE-ERROR") {
                    compiled.push((*l, Err(json!({"how": how, "stage": "optimize-error", "msg": String::from_utf8_lossy(&src), "panicked": false}))));
                    continue;
                }
                let gen = format!("{}/gen{}.rs", dir, l);
                let bin = format!("{}/gen{}", dir, l);
                std::fs::write(&gen, &src).unwrap();
                let mut rc = Command::new("rustc");
                rc.args(["--edition", "2018", "-C", "opt-level=0", "-C", "debuginfo=0", "-o", &bin, "--extern", &format!("hyeong={}", rlib), &gen]);
                let (_o, e, code, _t) = run_proc(&mut rc, b"", Duration::from_secs(120), 1 << 20);
                if code != 0 {
                    compiled.push((*l, Err(json!({"how": how, "stage": "rustc", "code": code, "panicked": false,
                                                  "stderr": String::from_utf8_lossy(&e).chars().take(600).collect::<String>()}))));
                    continue;
                }
                compiled.push((*l, Ok(bin)));
            }
        }
        let mut events = Vec::new();
        for (input_json, stdin) in &inputs {
            let mut runs = Vec::new();
            for l in &levels {
                let mut cmd = Command::new(&hyeong);
                cmd.args(["run", &format!("-O{}", l), "--color", "never", &file]);
                let (o, e, code, timed_out) = run_proc(&mut cmd, stdin, to, 4 << 20);
                let cut = timed_out || o.len() >= (4 << 20) || e.len() >= (4 << 20);
                let (body, started) = after_running(&o);
                let (body, e) = (clip(body, cut), clip(e, cut));
                let timed_out = cut;
                runs.push(json!({"how": format!("run-O{}", l), "stdout": lossy_cps(&body), "stderr": lossy_cps(&e), "code": code,
                                 "timeout": timed_out, "started": started,
                                 "panicked": String::from_utf8_lossy(&e).contains("panicked at")}));
            }
            for (l, c) in &compiled {
                match c {
                    Err(v) => runs.push(v.clone()),
                    Ok(bin) => {
                        let mut cmd = Command::new(bin);
                        let (o, e, code, timed_out) = run_proc(&mut cmd, stdin, to, 4 << 20);
                        let cut = timed_out || o.len() >= (4 << 20) || e.len() >= (4 << 20);
                        let (o, e) = (clip(o, cut), clip(e, cut));
                        let timed_out = cut;
                        runs.push(json!({"how": format!("compiled-O{}", l), "stage": "run", "stdout": lossy_cps(&o), "stderr": lossy_cps(&e), "code": code,
                                         "timeout": timed_out, "panicked": String::from_utf8_lossy(&e).contains("panicked at")}));
                    }
                }
            }
            events.push(json!({"ev":"obs","prog":case["prog"],"input":input_json,"text_ok":text_ok,"runs":runs,
                               "tag": case.get("tag").cloned().unwrap_or(json!(""))}));
        }
        let _ = std::fs::remove_dir_all(&dir);
        events
    });
    let mut w = std::io::BufWriter::new(std::fs::File::create(out).unwrap());
    for evs in res {
        for e in evs {
            writeln!(w, "{}", e).unwrap();
        }
    }
    w.flush().unwrap();
}

fn emit_source(prog_file: &str, level: u8) {
    let cmds: Value = serde_json::from_str(&std::fs::read_to_string(prog_file).unwrap()).unwrap();
    let codes: Vec<UnOptCode> = codes_of(&cmds);
    let src = if level >= 1 {
        match optimize::optimize(codes, level) {
            Ok((state, code)) => compile::build_source(state, &code, level),
            Err(e) => {
                print!("OPTIMIZE-ERROR {}", e.get_msg());
                return;
            }
        }
    } else {
        compile::build_source(UnOptState::new(), &codes, 0)
    };
    print!("{}", src);
}

/// C10: run optimize() only.  The parent watches stdin / stdout / stderr / exit of this process.
fn optonly(prog_file: &str, level: u8, fd: i32) {
    let cmds: Value = serde_json::from_str(&std::fs::read_to_string(prog_file).unwrap()).unwrap();
    let codes: Vec<UnOptCode> = codes_of(&cmds);
    let n = codes.len();
    let t = Instant::now();
    let r = guarded(|| optimize::optimize(codes, level));
    let steps = optimize::VERIF_SPEC_STEPS.load(Ordering::Relaxed);
    let ms = t.elapsed().as_millis() as u64;
    // the completion marker goes to a side channel (fd 3) so that fd 1/2 stay the program's
    let line = match r {
        Ok(Ok((_s, code))) => json!({"ev":"optend","ok":true,"residual":code.len(),"n":n,"steps":steps,"ms":ms}),
        Ok(Err(e)) => json!({"ev":"optend","ok":false,"error":e.get_msg(),"n":n,"steps":steps,"ms":ms}),
        Err(m) => json!({"ev":"optend","panic":m,"n":n,"steps":steps,"ms":ms}),
    };
    use std::os::unix::io::FromRawFd;
    let mut f = unsafe { std::fs::File::from_raw_fd(fd) };
    let _ = writeln!(f, "{}", line);
}

/// mechanism dump (binding diagnostics, never a verdict): what optimize() produced for a program -
/// renumbered commands, vector size, and at level 2 how far pre-execution got and the state it left
fn optdump(input: &str, out: &str) {
    use hyeong::core::code::Code;
    let cases = read_cases(input);
    let mut w = std::io::BufWriter::new(std::fs::File::create(out).unwrap());
    for case in cases {
        let codes: Vec<UnOptCode> = codes_of(&case["prog"]);
        let n = codes.len();
        for level in [1u8, 2u8] {
            let r = guarded(|| optimize::optimize(codes.clone(), level));
            let ev = match r {
                Ok(Ok((mut state, code))) => {
                    let cmds: Vec<Value> = code
                        .iter()
                        .map(|c| json!({"k": c.get_type(), "h": c.get_hangul_count(), "d": c.get_dot_count(), "cnt": c.get_area_count()}))
                        .collect();
                    let mut st = Vec::new();
                    for i in 0..state.stack_size() {
                        if i == 1 || i == 2 {
                            continue;
                        }
                        let s = state.get_stack(i);
                        if !s.is_empty() {
                            st.push(json!([i, s.iter().map(num_compact).collect::<Vec<_>>()]));
                        }
                    }
                    let text = |state: &mut hyeong::core::state::OptState, i: usize| -> Vec<u32> {
                        if i < state.stack_size() {
                            state.get_stack(i).iter().map(|v| v.floor().to_int()).collect()
                        } else {
                            Vec::new()
                        }
                    };
                    let mut labels: Vec<Value> = state
                        .get_all_point()
                        .iter()
                        .map(|(id, loc)| json!([(*id >> 4) as u64, (*id & 15) as u64, *loc]))
                        .collect();
                    labels.sort_by_key(|v| v.to_string());
                    json!({"ev":"optdump","prog":case["prog"],"level":level,"ok":true,"size":state.stack_size(),"k": n - code.len(),
                           "code":cmds,"cur":state.current_stack(),"last":state.get_latest_loc().map(|x| x as i64).unwrap_or(-1),
                           "labels":labels,"st":st,"out":text(&mut state, 1),"err":text(&mut state, 2)})
                }
                Ok(Err(e)) => json!({"ev":"optdump","prog":case["prog"],"level":level,"ok":false,"error":e.get_msg()}),
                Err(m) => json!({"ev":"optdump","prog":case["prog"],"level":level,"ok":false,"error":format!("panic: {}", m)}),
            };
            writeln!(w, "{}", ev).unwrap();
        }
    }
    w.flush().unwrap();
}

/// mechanism dump of the compiler (binding diagnostics): block count, start block, restored label table and
/// pending return-jump target, read off the emitted source
fn compdump(input: &str, out: &str) {
    let cases = read_cases(input);
    let mut w = std::io::BufWriter::new(std::fs::File::create(out).unwrap());
    for case in cases {
        let codes: Vec<UnOptCode> = codes_of(&case["prog"]);
        for level in [0u8, 1u8, 2u8] {
            let cs = codes.clone();
            let r = guarded(move || {
                if level >= 1 {
                    optimize::optimize(cs, level).map(|(state, code)| compile::build_source(state, &code, level))
                } else {
                    Ok(compile::build_source(UnOptState::new(), &cs, 0))
                }
            });
            let ev = match r {
                Ok(Ok(src)) => {
                    let mut blocks: i64 = 0;
                    let mut start: i64 = 0;
                    let mut last: i64 = -1;
                    let mut points: Vec<Value> = Vec::new();
                    let mut in_main = false;
                    for line in src.lines() {
                        let t = line.trim();
                        if t.starts_with("fn main()") {
                            in_main = true;
                        }
                        if !in_main {
                            continue;
                        }
                        if let Some(r) = t.strip_prefix("while state < ") {
                            blocks = r.trim_end_matches(" {").parse().unwrap_or(-1);
                            break;
                        }
                        if let Some(r) = t.strip_prefix("state = ") {
                            start = r.trim_end_matches(';').parse().unwrap_or(-1);
                        }
                        if let Some(r) = t.strip_prefix("last = Option::") {
                            last = if r.starts_with("None") { -1 } else { r.trim_start_matches("Some(").trim_end_matches(");").parse().unwrap_or(-2) };
                        }
                        if let Some(r) = t.strip_prefix("point.insert(") {
                            let parts: Vec<&str> = r.trim_end_matches(");").split("u128, ").collect();
                            if parts.len() == 2 {
                                let id: u64 = parts[0].parse().unwrap_or(0);
                                let b: i64 = parts[1].parse().unwrap_or(-1);
                                points.push(json!([id >> 4, id & 15, b]));
                            }
                        }
                    }
                    json!({"ev":"compdump","prog":case["prog"],"level":level,"ok":true,"blocks":blocks,"start":start,"last":last,"points":points})
                }
                Ok(Err(e)) => json!({"ev":"compdump","prog":case["prog"],"level":level,"ok":false,"error":e.get_msg()}),
                Err(m) => json!({"ev":"compdump","prog":case["prog"],"level":level,"ok":false,"error":format!("panic: {}", m)}),
            };
            writeln!(w, "{}", ev).unwrap();
        }
    }
    w.flush().unwrap();
}

fn main() {
    quiet_panics();
    let args: Vec<String> = std::env::args().collect();
    let jobs = arg(&args, "--jobs").and_then(|s| s.parse().ok()).unwrap_or(14);
    match args.get(1).map(|s| s.as_str()) {
        Some("child") => child(
            &arg(&args, "--prog").unwrap(),
            arg(&args, "--maxsteps").and_then(|s| s.parse().ok()).unwrap_or(200),
            arg(&args, "--maxlimbs").and_then(|s| s.parse().ok()).unwrap_or(6),
        ),
        Some("steps") => steps(
            &arg(&args, "--in").unwrap(),
            &arg(&args, "--out").unwrap(),
            arg(&args, "--maxsteps").and_then(|s| s.parse().ok()).unwrap_or(200),
            arg(&args, "--maxlimbs").and_then(|s| s.parse().ok()).unwrap_or(6),
            &arg(&args, "--work").unwrap(),
            jobs,
        ),
        Some("obs") => {
            let lv = |s: Option<String>| -> Vec<u8> { s.map(|x| x.split(',').filter(|t| !t.is_empty()).map(|t| t.parse().unwrap()).collect()).unwrap_or_default() };
            obs(
                &arg(&args, "--in").unwrap(),
                &arg(&args, "--out").unwrap(),
                &arg(&args, "--hyeong").unwrap(),
                lv(arg(&args, "--levels")),
                lv(arg(&args, "--clevels")),
                arg(&args, "--rlib"),
                &arg(&args, "--work").unwrap(),
                arg(&args, "--timeout").and_then(|s| s.parse().ok()).unwrap_or(3000),
                jobs,
            )
        }
        Some("optdump") => optdump(&arg(&args, "--in").unwrap(), &arg(&args, "--out").unwrap()),
        Some("compdump") => compdump(&arg(&args, "--in").unwrap(), &arg(&args, "--out").unwrap()),
        Some("emit") => emit_source(&arg(&args, "--prog").unwrap(), arg(&args, "--level").and_then(|s| s.parse().ok()).unwrap_or(0)),
        Some("optonly") => optonly(
            &arg(&args, "--prog").unwrap(),
            arg(&args, "--level").and_then(|s| s.parse().ok()).unwrap_or(2),
            arg(&args, "--fd").and_then(|s| s.parse().ok()).unwrap_or(3),
        ),
        _ => {
            eprintln!("usage: hv-exec child|steps|obs|emit|optonly ...");
            std::process::exit(2);
        }
    }
}
