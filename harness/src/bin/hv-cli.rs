//! hv-cli: the real `hyeong` binary as a process (C11 debugger, C12 interactive interpreter, C13 CLI)
//!
//!   hv-cli dbg  --in CASES --out TRACE --hyeong BIN --work DIR    debugger sessions
//!   hv-cli repl --in CASES --out TRACE --hyeong BIN --work DIR    interactive sessions
//!   hv-cli cli  --in CASES --out TRACE --hyeong BIN --work DIR    run / check on arbitrary files and stdin
//!
//! Transcripts are reduced to the events the properties talk about (state displays, output chunks,
//! exit status); prompts, listing lines and the wording of log / help / error lines are not compared.

use hv::procs::*;
use hv::prog::*;
use hv::*;
use serde_json::{json, Value};
use std::io::Write;
use std::process::Command;
use std::time::Duration;

fn arg(args: &[String], name: &str) -> Option<String> {
    args.iter().position(|a| a == name).and_then(|i| args.get(i + 1).cloned())
}

/// the part of a transcript line that starts at a marker, wherever the prompt left the cursor
fn after<'a>(line: &'a str, marker: &str) -> Option<&'a str> {
    line.find(marker).map(|p| &line[p + marker.len()..])
}

/// transcript -> events named by the properties.  Only the markers are relied upon ("current stack: ",
/// "stack N: [..]", "[stdout] ", "[stderr] "); prompts and every other line are skipped.
fn transcript_events(stdout: &str) -> Vec<Value> {
    let mut evs: Vec<Value> = Vec::new();
    let mut cur_state: Option<(i64, Vec<Value>)> = None;
    for line in stdout.split('\n') {
        if cur_state.is_some() {
            if let Some(rest) = line.strip_prefix("stack ") {
                if let Some((idx, vals)) = rest.split_once(": [") {
                    if let (Ok(i), Some(body), Some(st)) = (idx.parse::<i64>(), vals.strip_suffix(']'), cur_state.as_mut()) {
                        if !body.is_empty() {
                            let texts: Vec<Value> = body.split(", ").map(|t| json!(text_cps(t))).collect();
                            st.1.push(json!([i, texts]));
                        }
                        continue;
                    }
                }
            }
        }
        if let Some((cur, st)) = cur_state.take() {
            evs.push(json!({"t":"state","cur":cur,"st":st}));
        }
        if let Some(n) = after(line, "current stack: ") {
            if let Ok(c) = n.trim().parse::<i64>() {
                cur_state = Some((c, Vec::new()));
                continue;
            }
        }
        if let Some(t) = after(line, "[stdout] ") {
            evs.push(json!({"t":"out","text":text_cps(t)}));
        } else if let Some(t) = after(line, "[stderr] ") {
            evs.push(json!({"t":"err","text":text_cps(t)}));
        }
    }
    if let Some((cur, st)) = cur_state.take() {
        evs.push(json!({"t":"state","cur":cur,"st":st}));
    }
    evs
}

fn script_text(script: &Value) -> String {
    let mut s = String::new();
    for c in script.as_array().unwrap() {
        let w = c[0].as_str().unwrap();
        let line = match w {
            "n" => "n".to_string(),
            "p" => "previous".to_string(),
            "r" => "r".to_string(),
            "s" => "s".to_string(),
            "b" => format!("b {}", c[1]),
            "bl" => "break".to_string(),
            "h" => "help".to_string(),
            "x" => "frobnicate now".to_string(),
            _ => "".to_string(),
        };
        s.push_str(&line);
        s.push('\n');
    }
    s
}

fn dbg(input: &str, out: &str, hyeong: &str, work: &str, jobs: usize) {
    let cases = read_cases(input);
    let (work, hyeong) = (work.to_string(), hyeong.to_string());
    std::fs::create_dir_all(&work).unwrap();
    let res = par_map(cases, jobs, move |i, case| {
        let dir = format!("{}/d{}_{}", work, std::process::id(), i);
        std::fs::create_dir_all(&dir).unwrap();
        let file = format!("{}/p.hyeong", dir);
        std::fs::write(&file, program_text(&case["prog"]).as_bytes()).unwrap();
        let mut cmd = Command::new(&hyeong);
        cmd.args(["debug", "--color", "never", &file]);
        let (o, e, code, timed_out) = run_proc(&mut cmd, script_text(&case["script"]).as_bytes(), Duration::from_millis(if std::env::var("HV_SLOW").is_ok() { 15000 } else { 1500 }), 4 << 20);
        let _ = std::fs::remove_dir_all(&dir);
        let so = String::from_utf8_lossy(&o).to_string();
        let se = String::from_utf8_lossy(&e).to_string();
        let mut evs = transcript_events(&so);
        if !timed_out {
            evs.push(json!({"t":"end","code":code}));
        }
        vec![json!({"ev":"dbg","prog":case["prog"],"script":case["script"],"events":evs,"timeout":timed_out,
                    "panicked": se.contains("panicked at"), "stderr": se.chars().take(300).collect::<String>()})]
    });
    write_all(out, res);
}

fn repl(input: &str, out: &str, hyeong: &str, work: &str, jobs: usize) {
    let cases = read_cases(input);
    let (work, hyeong) = (work.to_string(), hyeong.to_string());
    std::fs::create_dir_all(&work).unwrap();
    let res = par_map(cases, jobs, move |_i, case| {
        // lines: {"kind":"code","cmds":[...]} | {"kind":"clear"|"help"|"blank"}
        let mut text = String::new();
        for l in case["lines"].as_array().unwrap() {
            match l["kind"].as_str().unwrap() {
                "code" => text.push_str(program_text(&l["cmds"]).trim_end()),
                "clear" => text.push_str("clear"),
                "help" => text.push_str("help"),
                _ => {}
            }
            text.push('\n');
        }
        let mut cmd = Command::new(&hyeong);
        cmd.args(["--color", "never"]).current_dir(&work);
        let (o, e, code, timed_out) = run_proc(&mut cmd, text.as_bytes(), Duration::from_millis(if std::env::var("HV_SLOW").is_ok() { 15000 } else { 2500 }), 4 << 20);
        let so = String::from_utf8_lossy(&o).to_string();
        let se = String::from_utf8_lossy(&e).to_string();
        // one segment per prompt
        let mut segs: Vec<Value> = Vec::new();
        for (k, seg) in so.split("> ").enumerate() {
            if k == 0 {
                continue; // banner
            }
            segs.push(Value::Array(transcript_events(seg)));
        }
        vec![json!({"ev":"repl","lines":case["lines"],"segs":segs,"code":code,"timeout":timed_out,
                    "panicked": se.contains("panicked at"), "stderr": se.chars().take(300).collect::<String>()})]
    });
    write_all(out, res);
}

fn cli(input: &str, out: &str, hyeong: &str, work: &str, jobs: usize) {
    let cases = read_cases(input);
    let (work, hyeong) = (work.to_string(), hyeong.to_string());
    std::fs::create_dir_all(&work).unwrap();
    let res = par_map(cases, jobs, move |i, case| {
        let dir = format!("{}/c{}_{}", work, std::process::id(), i);
        std::fs::create_dir_all(&dir).unwrap();
        let kind = case["fileKind"].as_str().unwrap();
        let name = match kind {
            "wrongExt" => "p.txt",
            "noExt" => "p",
            _ => "p.hyeong",
        };
        let file = format!("{}/{}", dir, name);
        match kind {
            "missing" => {}
            "directory" => std::fs::create_dir_all(&file).unwrap(),
            _ => std::fs::write(&file, json_bytes(&case["file"])).unwrap(),
        }
        let sub = case["sub"].as_str().unwrap();
        let mut cmd = Command::new(&hyeong);
        let verbose = case["verbose"].as_bool().unwrap_or(false);
        if verbose {
            cmd.arg("--verbose");
        }
        if sub == "run" {
            cmd.args(["run", &format!("-O{}", case["level"]), "--color", "never", &file]);
        } else {
            cmd.args(["check", "--color", "never", &file]);
        }
        let (o, e, code, timed_out) = run_proc(&mut cmd, &json_bytes(&case["stdin"]), Duration::from_millis(case["timeout_ms"].as_u64().unwrap_or(3000)), 1 << 20);
        let _ = std::fs::remove_dir_all(&dir);
        let se = String::from_utf8_lossy(&e).to_string();
        // the tool's own log: the leading lines that start with "==> "; for `run` the line "running code"
        // is the last of them and everything after it is the program's
        let mut pos = 0usize;
        let mut log: Vec<Value> = Vec::new();
        while o[pos..].starts_with("==> ".as_bytes()) {
            let end = match o[pos..].iter().position(|b| *b == b'\n') {
                Some(nl) => pos + nl,
                None => o.len(),
            };
            let line = String::from_utf8_lossy(&o[pos + 4..end]).to_string();
            pos = (end + 1).min(o.len());
            let rec = if let Some(p) = line.strip_prefix("parsing ") {
                json!({"k": "parsing", "n": if p == file { 1 } else { 0 }})
            } else if let Some(n) = line.strip_prefix("\u{2b91}  total ").and_then(|r| r.strip_suffix(" commands")).and_then(|n| n.parse::<u64>().ok()) {
                json!({"k": "total", "n": n})
            } else if let Some(n) = line.strip_prefix("optimizing to level ").and_then(|n| n.parse::<u64>().ok()) {
                json!({"k": "optimizing", "n": n})
            } else if line == "running code" {
                json!({"k": "running", "n": 0})
            } else {
                json!({"k": "other", "n": 0})
            };
            let last = rec["k"] == "running";
            log.push(rec);
            if last {
                break;
            }
        }
        let body: Vec<u8> = if sub == "run" { o[pos..].to_vec() } else { o.clone() };
        // a run that was cut (time-out / output cap) keeps a short, well-formed prefix of its output
        let body: Vec<u8> = if timed_out || (sub == "run" && body.len() > 6000) {
            let cut = &body[..body.len().min(3000)];
            match std::str::from_utf8(cut) {
                Ok(_) => cut.to_vec(),
                Err(e) => cut[..e.valid_up_to()].to_vec(),
            }
        } else {
            body
        };
        let cut_output = timed_out || (sub == "run" && o.len() > 6000);
        let mut ev = case.clone();
        ev["ev"] = json!("cli");
        ev["code"] = json!(code);
        ev["timeout"] = json!(cut_output);
        ev["stdout"] = json!(body);
        ev["stderr"] = json!(e.iter().take(4000).cloned().collect::<Vec<u8>>());
        ev["diag"] = json!(!e.is_empty());
        ev["panicked"] = json!(se.contains("panicked at") || se.contains("RUST_BACKTRACE"));
        ev["log"] = json!(log);
        ev["verbose"] = json!(verbose);
        ev["lines"] = json!(String::from_utf8_lossy(&o).lines().filter(|l| !l.starts_with("==> ")).count());
        vec![ev]
    });
    write_all(out, res);
}

fn write_all(out: &str, res: Vec<Vec<Value>>) {
    let mut w = std::io::BufWriter::new(std::fs::File::create(out).unwrap());
    for evs in res {
        for e in evs {
            writeln!(w, "{}", e).unwrap();
        }
    }
    w.flush().unwrap();
}

fn main() {
    let args: Vec<String> = std::env::args().collect();
    let jobs = arg(&args, "--jobs").and_then(|s| s.parse().ok()).unwrap_or(4);
    let (i, o, h, w) = (arg(&args, "--in").unwrap(), arg(&args, "--out").unwrap(), arg(&args, "--hyeong").unwrap(), arg(&args, "--work").unwrap());
    match args.get(1).map(|s| s.as_str()) {
        Some("dbg") => dbg(&i, &o, &h, &w, jobs),
        Some("repl") => repl(&i, &o, &h, &w, jobs),
        Some("cli") => cli(&i, &o, &h, &w, jobs),
        _ => {
            eprintln!("usage: hv-cli dbg|repl|cli --in CASES --out TRACE --hyeong BIN --work DIR");
            std::process::exit(2);
        }
    }
}
