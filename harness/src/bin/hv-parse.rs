//! hv-parse: binding of HyGrammar / HyParser / HyRender to src/core/parse.rs
//!
//!   hv-parse replay --in FILE        (R: texts enumerated by TLC with the grammar's commands)
//!   hv-parse record --seed S --n N --maxlen L --out FILE   (T: random Unicode texts -> ndjson)
//!   hv-parse render --seed S --n N --out FILE [--big]      (T: rendered command lists, C08)

use hv::*;
use hyeong::core::area::Area;
use hyeong::core::code::{Code, UnOptCode};
use hyeong::core::parse;
use rand::rngs::StdRng;
use rand::{Rng, SeedableRng};
use serde_json::{json, Value};
use std::io::{BufRead, Write};

/// area tree in prefix notation, iteratively (deep trees must not recurse here)
fn area_prefix(a: &Area) -> Vec<u32> {
    let mut out = Vec::new();
    let mut stack: Vec<&Area> = vec![a];
    while let Some(n) = stack.pop() {
        match n {
            Area::Nil => out.push(0),
            Area::Val { type_, left, right } => {
                if *type_ == 0 {
                    out.push(63);
                    stack.push(right);
                    stack.push(left);
                } else if *type_ == 1 {
                    out.push(33);
                    stack.push(right);
                    stack.push(left);
                } else {
                    out.push(100 + *type_ as u32);
                }
            }
        }
    }
    out
}

fn cmd_json(c: &UnOptCode) -> Value {
    let (line, col) = c.get_location();
    json!({"k": c.get_type(), "h": c.get_hangul_count(), "d": c.get_dot_count(),
           "ap": area_prefix(c.get_area()), "line": line, "col": col, "raw": text_cps(&c.get_raw())})
}

fn parse_json(text: &str) -> Result<Value, String> {
    let t = text.to_string();
    guarded(move || {
        let cmds = parse::parse(t);
        let v: Vec<Value> = cmds.iter().map(cmd_json).collect();
        // dropping a deep area tree recurses; keep it inside the guard
        drop(cmds);
        Value::Array(v)
    })
}

fn replay(input: &str) {
    let f = std::io::BufReader::new(std::fs::File::open(input).unwrap());
    let stdout = std::io::stdout();
    let mut out = stdout.lock();
    let (mut n, mut bad) = (0usize, 0usize);
    for line in f.lines() {
        let line = line.unwrap();
        if line.trim().is_empty() {
            continue;
        }
        let c: Value = serde_json::from_str(&line).unwrap();
        n += 1;
        let text = cps_text(&c["t"]);
        let want = if c["c"].is_null() { json!([]) } else { c["c"].clone() };
        match parse_json(&text) {
            Ok(got) => {
                if got != want {
                    bad += 1;
                    writeln!(out, "{}", json!({"mismatch": "commands differ", "t": c["t"], "text": text, "want": want, "got": got})).unwrap();
                }
            }
            Err(m) => {
                bad += 1;
                writeln!(out, "{}", json!({"mismatch": format!("panic: {}", m), "t": c["t"], "text": text})).unwrap();
            }
        }
    }
    writeln!(out, "{}", json!({"done": true, "cases": n, "bad": bad})).unwrap();
}

const CMD: [char; 6] = ['형', '항', '핫', '흣', '흡', '흑'];
const START: [char; 3] = ['혀', '하', '흐'];
const ENDS: [char; 6] = ['엉', '앙', '앗', '읏', '읍', '윽'];
const HEARTS: [char; 12] = ['♥', '❤', '💕', '💖', '💗', '💘', '💙', '💚', '💛', '💜', '💝', '♡'];
const DOTS: [char; 4] = ['.', '…', '⋯', '⋮'];
const SPACES: [char; 9] = [' ', '\n', '\t', '\r', '\u{00A0}', '\u{3000}', '\u{2028}', '\u{000B}', '\u{200A}'];
// characters just outside the table ranges, other scripts, astral symbols
const NOISE: [char; 24] = [
    '\u{ABFF}', '\u{AC00}', '\u{D7A3}', '\u{D7A4}', '\u{2664}', '\u{2666}', '\u{2763}', '\u{1F494}', '\u{1F49E}',
    'a', 'Z', '0', '-', '_', '[', ']', '¿', '¡', '‥', '·', '\u{10000}', '\u{10FFFF}', '\u{0}', '가',
];

fn rand_char(rng: &mut StdRng) -> char {
    match rng.gen_range(0..100) {
        0..=13 => CMD[rng.gen_range(0..6)],
        14..=22 => START[rng.gen_range(0..3)],
        23..=33 => ENDS[rng.gen_range(0..6)],
        34..=41 => char::from_u32(rng.gen_range(0xAC00..=0xD7A3)).unwrap(),
        42..=55 => DOTS[rng.gen_range(0..4)],
        56..=63 => '?',
        64..=71 => '!',
        72..=82 => HEARTS[rng.gen_range(0..12)],
        83..=90 => SPACES[rng.gen_range(0..9)],
        91..=97 => NOISE[rng.gen_range(0..24)],
        _ => loop {
            let c = rng.gen_range(0..0x110000u32);
            if let Some(ch) = char::from_u32(c) {
                break ch;
            }
        },
    }
}

fn record(seed: u64, n: usize, maxlen: usize, out: &str, chain: usize) {
    let mut rng = StdRng::seed_from_u64(seed);
    let mut w = std::io::BufWriter::new(std::fs::File::create(out).unwrap());
    for i in 0..n {
        let len = if rng.gen_bool(0.3) { rng.gen_range(0..=8) } else { rng.gen_range(0..=maxlen) };
        let mut text: String = (0..len).map(|_| rand_char(&mut rng)).collect();
        if i % 97 == 5 || (chain > 0 && i == 0) {
            // a long area chain on one command
            let ops = if chain > 0 && i == 0 { chain } else { rng.gen_range(100..=700) };
            text.push('형');
            for _ in 0..ops {
                text.push(match rng.gen_range(0..4) { 0 => '?', 1 => '!', 2 => '♥', _ => HEARTS[rng.gen_range(0..12)] });
            }
        }
        let ev = match parse_json(&text) {
            Ok(c) => {
                // re-parse of the concatenated raw texts
                let raws: String = c.as_array().unwrap().iter().map(|x| cps_text(&x["raw"])).collect();
                match parse_json(&raws) {
                    Ok(c2) => json!({"ev":"parse","t":text_cps(&text),"c":c,"c2":c2}),
                    Err(m) => json!({"ev":"panic","t":text_cps(&raws),"msg":m}),
                }
            }
            Err(m) => json!({"ev":"panic","t":text_cps(&text),"msg":m}),
        };
        writeln!(w, "{}", ev).unwrap();
    }
    w.flush().unwrap();
}

// ------------------------------------------------------------------ C08: rendering command lists

/// random area in the flat prefix form the grammar produces: a ?-chain of !-chains of slots
fn gen_area(rng: &mut StdRng, max_ops: usize) -> Vec<Vec<Option<usize>>> {
    // segments (split at ?) of slots (split at !), slot = heart index or none
    let ops = if rng.gen_bool(0.3) { 0 } else { rng.gen_range(0..=max_ops) };
    let mut segs = vec![vec![if rng.gen_bool(0.7) { Some(rng.gen_range(0..12)) } else { None }]];
    for _ in 0..ops {
        let slot = if rng.gen_bool(0.7) { Some(rng.gen_range(0..12)) } else { None };
        if rng.gen_bool(0.4) {
            segs.push(vec![slot]);
        } else {
            segs.last_mut().unwrap().push(slot);
        }
    }
    segs
}

fn area_to_prefix(segs: &[Vec<Option<usize>>]) -> Vec<u32> {
    // QuTree / BangTree shape, written directly in prefix order
    let mut out = Vec::new();
    for (si, seg) in segs.iter().enumerate() {
        if si + 1 < segs.len() {
            out.push(63);
        }
        for (i, slot) in seg.iter().enumerate() {
            if i + 1 < seg.len() {
                out.push(33);
            }
            out.push(match slot { Some(h) => 100 + 2 + *h as u32, None => 0 });
        }
    }
    out
}

fn filler(rng: &mut StdRng, text: &mut String, heavy: bool) {
    // characters the grammar ignores between commands / after the area began
    let n = if heavy { rng.gen_range(0..4) } else { rng.gen_range(0..2) };
    for _ in 0..n {
        let c = match rng.gen_range(0..6) {
            0 => ' ',
            1 => '\n',
            2 => 'x',
            3 => '\u{3000}',
            4 => '가',
            _ => '-',
        };
        text.push(c);
    }
}

fn render(seed: u64, n: usize, out: &str, big: bool) {
    let mut rng = StdRng::seed_from_u64(seed);
    let mut w = std::io::BufWriter::new(std::fs::File::create(out).unwrap());
    for _ in 0..n {
        let ncmd = if big { rng.gen_range(1..=40) } else { rng.gen_range(0..=6) };
        let mut intended = Vec::new();
        let mut text = String::new();
        // text before the first command: anything but a command start
        if rng.gen_bool(0.5) {
            for _ in 0..rng.gen_range(1..6) {
                let c = match rng.gen_range(0..8) {
                    0 => '?', 1 => '!', 2 => HEARTS[rng.gen_range(0..12)], 3 => '.', 4 => '…', 5 => ENDS[rng.gen_range(0..6)],
                    6 => '가', _ => ' ',
                };
                text.push(c);
            }
        }
        for _ in 0..ncmd {
            let k = rng.gen_range(0..6usize);
            let h = if big && rng.gen_bool(0.1) { rng.gen_range(1000..5000) } else if rng.gen_bool(0.5) { 1 } else { rng.gen_range(1..8) };
            let d = if big && rng.gen_bool(0.1) { rng.gen_range(1000..5000) } else { rng.gen_range(0..10) };
            let segs = gen_area(&mut rng, if big { 300 } else { 5 });
            // syllables
            if h == 1 && rng.gen_bool(0.8) {
                text.push(CMD[k]);
            } else if h >= 2 {
                text.push(START[match k { 0 => 0, 1 | 2 => 1, _ => 2 }]);
                // inside a multi-syllable command: other Hangul counts, everything else is ignored;
                // filler syllables must not be an end syllable of this command's class
                let class_ends: &[char] = match k { 0 => &ENDS[0..1], 1 | 2 => &ENDS[1..3], _ => &ENDS[3..6] };
                for _ in 0..h - 2 {
                    let c = loop {
                        let c = match rng.gen_range(0..4) {
                            0 => char::from_u32(rng.gen_range(0xAC00..=0xD7A3)).unwrap(),
                            1 => CMD[rng.gen_range(0..6)],
                            2 => ['어', '아', '으'][match k { 0 => 0, 1 | 2 => 1, _ => 2 }],
                            _ => START[rng.gen_range(0..3)],
                        };
                        if !class_ends.contains(&c) {
                            break c;
                        }
                    };
                    text.push(c);
                    if rng.gen_bool(0.1) {
                        text.push([' ', '.', '?', '♥', 'x', '\n'][rng.gen_range(0..6)]);
                    }
                }
                text.push(ENDS[k]);
            } else {
                // h == 1 has no multi-syllable spelling
                text.push(CMD[k]);
            }
            // dots: periods and ellipsis characters mixed
            let mut left = d;
            while left > 0 {
                if left >= 3 && rng.gen_bool(0.4) {
                    text.push(DOTS[rng.gen_range(1..4)]);
                    left -= 3;
                } else {
                    text.push('.');
                    left -= 1;
                }
                if rng.gen_bool(0.1) {
                    text.push(' ');
                }
            }
            // area with redundant hearts, dots and noise in ignorable places
            let mut first = true;
            for (si, seg) in segs.iter().enumerate() {
                if si > 0 {
                    text.push('?');
                    first = false;
                }
                for (i, slot) in seg.iter().enumerate() {
                    if i > 0 {
                        text.push('!');
                        first = false;
                    }
                    if let Some(hh) = slot {
                        text.push(HEARTS[*hh]);
                        first = false;
                        // redundant hearts after the first of the slot
                        while rng.gen_bool(0.2) {
                            text.push(HEARTS[rng.gen_range(0..12)]);
                        }
                    }
                    if !first && rng.gen_bool(0.2) {
                        text.push(DOTS[rng.gen_range(0..4)]); // dots after the area began count nothing
                    }
                    if rng.gen_bool(0.2) {
                        filler(&mut rng, &mut text, false);
                    }
                }
            }
            filler(&mut rng, &mut text, true);
            intended.push(json!({"k": k, "h": h, "d": d, "ap": area_to_prefix(&segs)}));
        }
        // stray start syllables without a later end syllable, at the very end
        if rng.gen_bool(0.2) {
            text.push(START[rng.gen_range(0..3)]);
            text.push('가');
        }
        let ev = match parse_json(&text) {
            Ok(c) => json!({"ev":"render","intended":intended,"t":text_cps(&text),"c":c}),
            Err(m) => json!({"ev":"panic","t":text_cps(&text),"msg":m}),
        };
        writeln!(w, "{}", ev).unwrap();
    }
    w.flush().unwrap();
}

/// `hyeong check` listings of random texts (C08: the listing determines every command)
fn listing(seed: u64, n: usize, out: &str, hyeong: &str) {
    let mut rng = StdRng::seed_from_u64(seed);
    let mut w = std::io::BufWriter::new(std::fs::File::create(out).unwrap());
    let dir = std::path::Path::new(out).parent().unwrap().join(format!("listing_{}", seed));
    std::fs::create_dir_all(&dir).unwrap();
    let file = dir.join("t.hyeong");
    for i in 0..n {
        let len = if i % 10 == 0 { rng.gen_range(200..600) } else { rng.gen_range(0..=60) };
        let text: String = (0..len).map(|_| rand_char(&mut rng)).collect();
        std::fs::write(&file, text.as_bytes()).unwrap();
        let o = std::process::Command::new(hyeong)
            .args(["check", "--color", "never"])
            .arg(&file)
            .stdin(std::process::Stdio::null())
            .output()
            .unwrap();
        let stdout = String::from_utf8_lossy(&o.stdout).to_string();
        let lines: Vec<Value> = stdout
            .lines()
            .filter(|l| !l.starts_with("==> "))
            .map(|l| json!(text_cps(l)))
            .collect();
        let ev = json!({"ev":"listing","t":text_cps(&text),"lines":lines,"status":o.status.code().unwrap_or(-1),
                        "stderr": String::from_utf8_lossy(&o.stderr).chars().take(200).collect::<String>()});
        writeln!(w, "{}", ev).unwrap();
    }
    w.flush().unwrap();
    let _ = std::fs::remove_dir_all(&dir);
}

fn arg(args: &[String], name: &str) -> Option<String> {
    args.iter().position(|a| a == name).and_then(|i| args.get(i + 1).cloned())
}

fn main() {
    quiet_panics();
    let args: Vec<String> = std::env::args().collect();
    let seed = arg(&args, "--seed").and_then(|s| s.parse().ok()).unwrap_or(1);
    let n = arg(&args, "--n").and_then(|s| s.parse().ok()).unwrap_or(100);
    match args.get(1).map(|s| s.as_str()) {
        Some("replay") => replay(&arg(&args, "--in").expect("--in")),
        Some("record") => {
            let maxlen = arg(&args, "--maxlen").and_then(|s| s.parse().ok()).unwrap_or(60);
            let chain = arg(&args, "--chain").and_then(|s| s.parse().ok()).unwrap_or(0);
            record(seed, n, maxlen, &arg(&args, "--out").expect("--out"), chain);
        }
        Some("dump") => {
            // commands of a source file as JSON (k,h,d,ap), for program families kept as text
            let text = std::fs::read_to_string(arg(&args, "--file").expect("--file")).unwrap();
            let v = parse_json(&text).unwrap();
            let cmds: Vec<Value> = v.as_array().unwrap().iter().map(|c| json!({"k":c["k"],"h":c["h"],"d":c["d"],"ap":c["ap"]})).collect();
            println!("{}", Value::Array(cmds));
        }
        Some("listing") => listing(seed, n, &arg(&args, "--out").expect("--out"), &arg(&args, "--hyeong").expect("--hyeong")),
        Some("render") => render(seed, n, &arg(&args, "--out").expect("--out"), args.iter().any(|a| a == "--big")),
        _ => {
            eprintln!("usage: hv-parse replay|record|render ...");
            std::process::exit(2);
        }
    }
}
