//! Shared projections (Rust value -> JSON as the TLA+ modules read it) and helpers.
//! No expected-value logic lives here: only encoders, decoders and structural comparison.

use hyeong::number::big_number::BigNum;
use hyeong::number::num::Num;
use serde_json::{json, Value};

/// bytes of a magnitude given as 32-bit limbs (little endian), *all* bytes
pub fn limbs_to_bytes(limbs: &[u32]) -> Vec<u8> {
    let mut v = Vec::with_capacity(limbs.len() * 4);
    for l in limbs {
        v.extend_from_slice(&l.to_le_bytes());
    }
    v
}

/// Internal representation of a BigNum as the trace specs read it:
/// sign flag, digits base 256 with only the *top limb's* leading zero bytes trimmed,
/// and the number of limbs stored (so a superfluous zero limb stays visible).
pub fn bn_json(b: &BigNum) -> Value {
    let (pos, limbs) = b.verif_parts();
    let mut bytes = Vec::new();
    if !limbs.is_empty() {
        for l in &limbs[..limbs.len() - 1] {
            bytes.extend_from_slice(&l.to_le_bytes());
        }
        let top = limbs[limbs.len() - 1].to_le_bytes();
        let mut n = 4;
        while n > 0 && top[n - 1] == 0 {
            n -= 1;
        }
        bytes.extend_from_slice(&top[..n]);
    }
    json!({"neg": !pos, "mag": bytes, "limbs": limbs.len()})
}

/// raw source operand: sign + all bytes of the given limbs (no trimming at all)
pub fn src_json(neg: bool, limbs: &[u32]) -> Value {
    json!({"neg": neg, "mag": limbs_to_bytes(limbs)})
}

pub fn num_json(n: &Num) -> Value {
    let (up, down) = n.verif_parts();
    json!({"up": bn_json(up), "down": bn_json(down)})
}

/// digits (base 256, little endian) -> limbs, at least one limb
pub fn bytes_to_limbs(bytes: &[u8]) -> Vec<u32> {
    let mut limbs = Vec::new();
    for ch in bytes.chunks(4) {
        let mut b = [0u8; 4];
        b[..ch.len()].copy_from_slice(ch);
        limbs.push(u32::from_le_bytes(b));
    }
    if limbs.is_empty() {
        limbs.push(0);
    }
    limbs
}

pub fn json_bytes(v: &Value) -> Vec<u8> {
    v.as_array()
        .map(|a| a.iter().map(|x| x.as_u64().unwrap() as u8).collect())
        .unwrap_or_default()
}

/// Build a BigNum from a spec integer {neg, mag} through the public API
/// (from_vec + minus), the way a user of the library would.
pub fn bn_from_spec(v: &Value) -> BigNum {
    let bytes = json_bytes(&v["mag"]);
    let mut b = BigNum::from_vec(bytes_to_limbs(&bytes));
    if v["neg"].as_bool().unwrap_or(false) {
        b.minus();
    }
    b
}

/// Build a Num from a spec rational {nan:true} | {nan:false,num,den}
pub fn num_from_spec(v: &Value) -> Num {
    if v["nan"].as_bool().unwrap_or(false) {
        Num::nan()
    } else {
        Num::from_big_num(bn_from_spec(&v["num"]), bn_from_spec(&v["den"]))
    }
}

/// structural comparison of an implementation integer with a spec integer;
/// also requires the limb-level canonical form
pub fn bn_matches_spec(b: &BigNum, spec: &Value) -> bool {
    let j = bn_json(b);
    let mag = json_bytes(&j["mag"]);
    let limbs = j["limbs"].as_u64().unwrap() as usize;
    let want_limbs = if mag.is_empty() { 1 } else { (mag.len() + 3) / 4 };
    j["neg"] == spec["neg"] && mag == json_bytes(&spec["mag"]) && limbs == want_limbs
}

pub fn num_matches_spec(n: &Num, spec: &Value) -> bool {
    let (up, down) = n.verif_parts();
    if spec["nan"].as_bool().unwrap_or(false) {
        // NaN: denominator zero (in canonical limb form)
        let z = json!({"neg": false, "mag": []});
        bn_matches_spec(down, &z)
    } else {
        bn_matches_spec(up, &spec["num"]) && bn_matches_spec(down, &spec["den"])
    }
}

pub fn text_cps(s: &str) -> Vec<u32> {
    s.chars().map(|c| c as u32).collect()
}

pub fn cps_text(v: &Value) -> String {
    v.as_array()
        .map(|a| {
            a.iter()
                .map(|x| char::from_u32(x.as_u64().unwrap() as u32).unwrap_or('\u{FFFD}'))
                .collect()
        })
        .unwrap_or_default()
}

/// run a closure, turning a panic of the code under test into data
pub fn guarded<T>(f: impl FnOnce() -> T) -> Result<T, String> {
    std::panic::catch_unwind(std::panic::AssertUnwindSafe(f)).map_err(|e| {
        if let Some(s) = e.downcast_ref::<&str>() {
            s.to_string()
        } else if let Some(s) = e.downcast_ref::<String>() {
            s.clone()
        } else {
            "panic".to_string()
        }
    })
}

pub fn quiet_panics() {
    std::panic::set_hook(Box::new(|_| {}));
}

// ------------------------------------------------------------------------------------------
// programs: JSON commands {k,h,d,ap} <-> UnOptCode, canonical source text

pub mod prog {
    use hyeong::core::area::Area;
    use hyeong::core::code::UnOptCode;
    use serde_json::Value;

    pub const HEARTS: [char; 12] = ['♥', '❤', '💕', '💖', '💗', '💘', '💙', '💚', '💛', '💜', '💝', '♡'];
    pub const SINGLE: [char; 6] = ['형', '항', '핫', '흣', '흡', '흑'];
    pub const START: [char; 6] = ['혀', '하', '하', '흐', '흐', '흐'];
    pub const FILL: [char; 6] = ['어', '아', '아', '으', '으', '으'];
    pub const END: [char; 6] = ['엉', '앙', '앗', '읏', '읍', '윽'];

    /// area tree from prefix notation (0 Nil, 63 ?, 33 !, 100+t heart)
    pub fn area_from_prefix(ap: &[u32]) -> Area {
        fn go(ap: &[u32], i: &mut usize) -> Area {
            let t = ap[*i];
            *i += 1;
            match t {
                0 => Area::Nil,
                63 | 33 => {
                    let l = go(ap, i);
                    let r = go(ap, i);
                    Area::Val { type_: if t == 63 { 0 } else { 1 }, left: Box::new(l), right: Box::new(r) }
                }
                _ => Area::new((t - 100) as u8),
            }
        }
        let mut i = 0;
        go(ap, &mut i)
    }

    pub fn prefix_of(v: &Value) -> Vec<u32> {
        v.as_array().map(|a| a.iter().map(|x| x.as_u64().unwrap() as u32).collect()).unwrap_or_else(|| vec![0])
    }

    /// source text of the area, written so that the grammar reads back exactly this tree
    /// (valid for grammar-shaped trees: left of ? is a !-chain, left of ! is a slot)
    pub fn area_text(ap: &[u32]) -> String {
        // infix: prefix -> in-order traversal
        fn go(ap: &[u32], i: &mut usize, out: &mut String) {
            let t = ap[*i];
            *i += 1;
            match t {
                0 => {}
                63 | 33 => {
                    go(ap, i, out);
                    out.push(if t == 63 { '?' } else { '!' });
                    go(ap, i, out);
                }
                _ => out.push(HEARTS[(t - 102) as usize]),
            }
        }
        let mut s = String::new();
        let mut i = 0;
        go(ap, &mut i, &mut s);
        s
    }

    pub fn cmd_text(k: usize, h: usize, d: usize, ap: &[u32]) -> String {
        let mut s = String::new();
        if h == 1 {
            s.push(SINGLE[k]);
        } else {
            s.push(START[k]);
            for _ in 0..h - 2 {
                s.push(FILL[k]);
            }
            s.push(END[k]);
        }
        for _ in 0..d {
            s.push('.');
        }
        s.push_str(&area_text(ap));
        s
    }

    /// canonical source text of a program given as JSON commands
    pub fn program_text(cmds: &Value) -> String {
        let mut s = String::new();
        for c in cmds.as_array().unwrap() {
            let k = c["k"].as_u64().unwrap() as usize;
            let h = c["h"].as_u64().unwrap() as usize;
            let d = c["d"].as_u64().unwrap() as usize;
            s.push_str(&cmd_text(k, h, d, &prefix_of(&c["ap"])));
            s.push(' ');
        }
        s
    }

    pub fn code_of(c: &Value, idx: usize) -> UnOptCode {
        let k = c["k"].as_u64().unwrap() as usize;
        let h = c["h"].as_u64().unwrap() as usize;
        let d = c["d"].as_u64().unwrap() as usize;
        let ap = prefix_of(&c["ap"]);
        UnOptCode::new(k as u8, h, d, (1, idx), area_from_prefix(&ap), cmd_text(k, h, d, &ap))
    }

    pub fn codes_of(cmds: &Value) -> Vec<UnOptCode> {
        cmds.as_array().unwrap().iter().enumerate().map(|(i, c)| code_of(c, i)).collect()
    }
}

/// compact projection of a rational for machine traces: [up negative?, up digits, down negative?, down digits]
/// (NaN: down digits empty)
pub fn num_compact(n: &Num) -> Value {
    let (up, down) = n.verif_parts();
    let u = bn_json(up);
    let d = bn_json(down);
    json!([u["neg"], u["mag"], d["neg"], d["mag"]])
}


// ------------------------------------------------------------------------------------------
pub mod procs {
    use super::*;
    use std::io::{BufRead, Read, Write};
    use std::process::{Command, Stdio};
    use std::sync::atomic::{AtomicUsize, Ordering};
    use std::sync::{Arc, Mutex};
    use std::time::{Duration, Instant};

    /// run a command with stdin bytes, a wall-clock limit and an output cap
    pub fn run_proc(cmd: &mut Command, stdin: &[u8], timeout: Duration, cap: usize) -> (Vec<u8>, Vec<u8>, i64, bool) {
        let mut ch = cmd.stdin(Stdio::piped()).stdout(Stdio::piped()).stderr(Stdio::piped()).spawn().expect("spawn");
        let mut si = ch.stdin.take().unwrap();
        let data = stdin.to_vec();
        let w = std::thread::spawn(move || {
            let _ = si.write_all(&data);
        });
        let mut so = ch.stdout.take().unwrap();
        let mut se = ch.stderr.take().unwrap();
        let t_out = std::thread::spawn(move || {
            let mut buf = Vec::new();
            let mut chunk = [0u8; 65536];
            loop {
                match so.read(&mut chunk) {
                    Ok(0) | Err(_) => break,
                    Ok(k) => {
                        if buf.len() < cap {
                            buf.extend_from_slice(&chunk[..k]);
                        }
                    }
                }
            }
            buf
        });
        let t_err = std::thread::spawn(move || {
            let mut buf = Vec::new();
            let mut chunk = [0u8; 65536];
            loop {
                match se.read(&mut chunk) {
                    Ok(0) | Err(_) => break,
                    Ok(k) => {
                        if buf.len() < cap {
                            buf.extend_from_slice(&chunk[..k]);
                        }
                    }
                }
            }
            buf
        });
        let start = Instant::now();
        let mut timed_out = false;
        let code: i64 = loop {
            match ch.try_wait() {
                Ok(Some(st)) => {
                    break match st.code() {
                        Some(c) => c as i64,
                        None => {
                            use std::os::unix::process::ExitStatusExt;
                            -(st.signal().unwrap_or(0) as i64) - 1000
                        }
                    }
                }
                Ok(None) => {
                    if start.elapsed() > timeout {
                        let _ = ch.kill();
                        let _ = ch.wait();
                        timed_out = true;
                        break -1;
                    }
                    std::thread::sleep(Duration::from_micros(300));
                }
                Err(_) => break -2,
            }
        };
        let _ = w.join();
        let o = t_out.join().unwrap_or_default();
        let e = t_err.join().unwrap_or_default();
        (o, e, code, timed_out)
    }

    pub fn lossy_cps(b: &[u8]) -> Vec<u32> {
        text_cps(&String::from_utf8_lossy(b))
    }

    pub fn read_cases(path: &str) -> Vec<Value> {
        std::io::BufReader::new(std::fs::File::open(path).unwrap())
            .lines()
            .map(|l| l.unwrap())
            .filter(|l| !l.trim().is_empty())
            .map(|l| serde_json::from_str(&l).unwrap())
            .collect()
    }

    pub fn par_map(cases: Vec<Value>, jobs: usize, f: impl Fn(usize, &Value) -> Vec<Value> + Send + Sync + 'static) -> Vec<Vec<Value>> {
        let n = cases.len();
        let cases = Arc::new(cases);
        let next = Arc::new(AtomicUsize::new(0));
        let results: Arc<Mutex<Vec<Option<Vec<Value>>>>> = Arc::new(Mutex::new(vec![None; n]));
        let f = Arc::new(f);
        let mut hs = Vec::new();
        for _ in 0..jobs {
            let (cases, next, results, f) = (cases.clone(), next.clone(), results.clone(), f.clone());
            hs.push(std::thread::spawn(move || loop {
                let i = next.fetch_add(1, Ordering::SeqCst);
                if i >= cases.len() {
                    break;
                }
                let r = f(i, &cases[i]);
                results.lock().unwrap()[i] = Some(r);
            }));
        }
        for h in hs {
            h.join().unwrap();
        }
        let mut g = results.lock().unwrap();
        g.iter_mut().map(|x| x.take().unwrap_or_default()).collect()
    }


}
