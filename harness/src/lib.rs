//! Shared projections (Rust value -> JSON as the TLA+ modules read it) and helpers.
//! No expected-value logic lives here: only encoders, decoders and structural comparison.

use hyeong::number::big_number::BigNum;
use hyeong::number::num::Num;
use serde_json::{json, Value};

/// bytes of a magnitude given as 32-bit limbs (little endian), *all* bytes
pub fn limbs_to_bytes(limbs: &[u32]) -> Vec<u8> {
    let mut v = Vec::with_capacity(limbs.len() * 4);
    for l in limbs {
        v.extend_from_slice(&l.to_le_bytes());
    }
    v
}

/// Internal representation of a BigNum as the trace specs read it:
/// sign flag, digits base 256 with only the *top limb's* leading zero bytes trimmed,
/// and the number of limbs stored (so a superfluous zero limb stays visible).
pub fn bn_json(b: &BigNum) -> Value {
    let (pos, limbs) = b.verif_parts();
    let mut bytes = Vec::new();
    if !limbs.is_empty() {
        for l in &limbs[..limbs.len() - 1] {
            bytes.extend_from_slice(&l.to_le_bytes());
        }
        let top = limbs[limbs.len() - 1].to_le_bytes();
        let mut n = 4;
        while n > 0 && top[n - 1] == 0 {
            n -= 1;
        }
        bytes.extend_from_slice(&top[..n]);
    }
    json!({"neg": !pos, "mag": bytes, "limbs": limbs.len()})
}

/// raw source operand: sign + all bytes of the given limbs (no trimming at all)
pub fn src_json(neg: bool, limbs: &[u32]) -> Value {
    json!({"neg": neg, "mag": limbs_to_bytes(limbs)})
}

pub fn num_json(n: &Num) -> Value {
    let (up, down) = n.verif_parts();
    json!({"up": bn_json(up), "down": bn_json(down)})
}

/// digits (base 256, little endian) -> limbs, at least one limb
pub fn bytes_to_limbs(bytes: &[u8]) -> Vec<u32> {
    let mut limbs = Vec::new();
    for ch in bytes.chunks(4) {
        let mut b = [0u8; 4];
        b[..ch.len()].copy_from_slice(ch);
        limbs.push(u32::from_le_bytes(b));
    }
    if limbs.is_empty() {
        limbs.push(0);
    }
    limbs
}

pub fn json_bytes(v: &Value) -> Vec<u8> {
    v.as_array()
        .map(|a| a.iter().map(|x| x.as_u64().unwrap() as u8).collect())
        .unwrap_or_default()
}

/// Build a BigNum from a spec integer {neg, mag} through the public API
/// (from_vec + minus), the way a user of the library would.
pub fn bn_from_spec(v: &Value) -> BigNum {
    let bytes = json_bytes(&v["mag"]);
    let mut b = BigNum::from_vec(bytes_to_limbs(&bytes));
    if v["neg"].as_bool().unwrap_or(false) {
        b.minus();
    }
    b
}

/// Build a Num from a spec rational {nan:true} | {nan:false,num,den}
pub fn num_from_spec(v: &Value) -> Num {
    if v["nan"].as_bool().unwrap_or(false) {
        Num::nan()
    } else {
        Num::from_big_num(bn_from_spec(&v["num"]), bn_from_spec(&v["den"]))
    }
}

/// structural comparison of an implementation integer with a spec integer;
/// also requires the limb-level canonical form
pub fn bn_matches_spec(b: &BigNum, spec: &Value) -> bool {
    let j = bn_json(b);
    let mag = json_bytes(&j["mag"]);
    let limbs = j["limbs"].as_u64().unwrap() as usize;
    let want_limbs = if mag.is_empty() { 1 } else { (mag.len() + 3) / 4 };
    j["neg"] == spec["neg"] && mag == json_bytes(&spec["mag"]) && limbs == want_limbs
}

pub fn num_matches_spec(n: &Num, spec: &Value) -> bool {
    let (up, down) = n.verif_parts();
    if spec["nan"].as_bool().unwrap_or(false) {
        // NaN: denominator zero (in canonical limb form)
        let z = json!({"neg": false, "mag": []});
        bn_matches_spec(down, &z)
    } else {
        bn_matches_spec(up, &spec["num"]) && bn_matches_spec(down, &spec["den"])
    }
}

pub fn text_cps(s: &str) -> Vec<u32> {
    s.chars().map(|c| c as u32).collect()
}

pub fn cps_text(v: &Value) -> String {
    v.as_array()
        .map(|a| {
            a.iter()
                .map(|x| char::from_u32(x.as_u64().unwrap() as u32).unwrap_or('\u{FFFD}'))
                .collect()
        })
        .unwrap_or_default()
}

/// run a closure, turning a panic of the code under test into data
pub fn guarded<T>(f: impl FnOnce() -> T) -> Result<T, String> {
    std::panic::catch_unwind(std::panic::AssertUnwindSafe(f)).map_err(|e| {
        if let Some(s) = e.downcast_ref::<&str>() {
            s.to_string()
        } else if let Some(s) = e.downcast_ref::<String>() {
            s.clone()
        } else {
            "panic".to_string()
        }
    })
}

pub fn quiet_panics() {
    std::panic::set_hook(Box::new(|_| {}));
}
