-------------------------------- MODULE HyCli --------------------------------
(***************************************************************************)
(* The command-line process of src/main.rs, src/app/run.rs, check.rs       *)
(* (property C13): read the file -> decode -> parse -> (optimise) -> run   *)
(* -> end, as a function from what the environment supplies (kind of file, *)
(* its bytes, the bytes on standard input, sub-command) to the set of      *)
(* endings the specification allows.  There is no "panic" ending: a run    *)
(* that ends by panic or abort is not a behaviour of this specification.   *)
(***************************************************************************)
EXTENDS HyMachine, HyGrammar

\* ---- UTF-8 (RFC 3629), as Rust's from_utf8 accepts it
Cont(b) == b >= 128 /\ b <= 191
\* length of the sequence a lead byte announces (0: not a lead byte)
LeadLen(b) == IF b < 128 THEN 1 ELSE IF b >= 194 /\ b <= 223 THEN 2
              ELSE IF b >= 224 /\ b <= 239 THEN 3 ELSE IF b >= 240 /\ b <= 244 THEN 4 ELSE 0
\* is the sequence starting at lead position i well formed? (second-byte ranges exclude overlong forms,
\* surrogates and values above U+10FFFF)
SeqOK(bs, i) ==
  LET b == bs[i]  L == LeadLen(b)  n == Len(bs) IN
  /\ L > 0 /\ i + L - 1 <= n
  /\ \A k \in (i + 1) .. (i + L - 1) : Cont(bs[k])
  /\ (b = 224 => bs[i+1] >= 160) /\ (b = 237 => bs[i+1] <= 159)
  /\ (b = 240 => bs[i+1] >= 144) /\ (b = 244 => bs[i+1] <= 143)
CodeAt(bs, i) ==
  LET b == bs[i]  L == LeadLen(b) IN
  IF L = 1 THEN b
  ELSE IF L = 2 THEN (b - 192) * 64 + (bs[i+1] - 128)
  ELSE IF L = 3 THEN (b - 224) * 4096 + (bs[i+1] - 128) * 64 + (bs[i+2] - 128)
  ELSE (b - 240) * 262144 + (bs[i+1] - 128) * 4096 + (bs[i+2] - 128) * 64 + (bs[i+3] - 128)
\* Decoding without recursion (linear for TLC): the positions that are not continuation bytes must be
\* exactly the starts of well-formed sequences that tile the byte string.
Utf8Decode(bs) ==
  LET n == Len(bs)
      leads == SelectSeq([i \in 1 .. n |-> i], LAMBDA i : ~Cont(bs[i]))
      m == Len(leads)
      tiles == /\ (n > 0 => m > 0 /\ leads[1] = 1)
               /\ \A k \in 1 .. m : /\ SeqOK(bs, leads[k])
                                     /\ leads[k] + LeadLen(bs[leads[k]]) = (IF k < m THEN leads[k+1] ELSE n + 1)
  IN IF tiles THEN [ok |-> TRUE, cps |-> [k \in 1 .. m |-> CodeAt(bs, leads[k])]]
     ELSE [ok |-> FALSE, cps |-> <<>>]

\* encoding, to state what decoding must satisfy (MC_HyCli): Utf8Encode(Utf8Decode(bs).cps) = bs
Utf8Enc1(c) == IF c < 128 THEN <<c>>
               ELSE IF c < 2048 THEN <<192 + (c \div 64), 128 + (c % 64)>>
               ELSE IF c < 65536 THEN <<224 + (c \div 4096), 128 + ((c \div 64) % 64), 128 + (c % 64)>>
               ELSE <<240 + (c \div 262144), 128 + ((c \div 4096) % 64), 128 + ((c \div 64) % 64), 128 + (c % 64)>>
RECURSIVE Utf8Encode(_)
Utf8Encode(cps) == IF cps = <<>> THEN <<>> ELSE Utf8Enc1(Head(cps)) \o Utf8Encode(Tail(cps))
IsScalar(c) == c >= 0 /\ c <= 1114111 /\ ~(c >= 55296 /\ c <= 57343)

\* standard input arrives line by line; a line that is not UTF-8 is an error when (and only when) the
\* program asks for it.  InputPlan: the decoded lines before the first undecodable one, and whether
\* there is such a line.
RECURSIVE ByteLines(_,_)
ByteLines(bs, acc) ==
  IF bs = <<>> THEN (IF acc = <<>> THEN <<>> ELSE <<acc>>)
  ELSE IF Head(bs) = 10 THEN <<Append(acc, 10)>> \o ByteLines(Tail(bs), <<>>)
  ELSE ByteLines(Tail(bs), Append(acc, Head(bs)))
RECURSIVE GoodPrefix(_)
GoodPrefix(lines) == IF lines = <<>> THEN <<>>
                     ELSE LET d == Utf8Decode(Head(lines)) IN
                          IF d.ok THEN <<d.cps>> \o GoodPrefix(Tail(lines)) ELSE <<>>
InputPlan(stdin) ==
  LET ls == ByteLines(stdin, <<>>)
      good == GoodPrefix(ls)
  IN [lines |-> good, poisoned |-> Len(good) < Len(ls)]
\* the poisoned line is modelled as one more line holding the pseudo character -1; the run stops when
\* it has been fetched
Poison == <<-1>>
PoisonFetched(S, plan) == plan.poisoned /\ S.inp = <<>>
RunCli(prog, plan, n) ==
  LET S0 == [InitState(<<>>) EXCEPT !.inp = plan.lines \o (IF plan.poisoned THEN <<Poison>> ELSE <<>>)]
      go(acc, i) == IF Running(acc[2], prog) /\ ~PoisonFetched(acc[2], plan) /\ ~BigValue(acc[2], 16)
                    THEN <<acc[2], Step(acc[2], prog)>> ELSE acc
  IN FoldLeft(go, <<S0, S0>>, [i \in 1 .. n |-> i])       \* <<state before the last step, final state>>

FileErrors == {"missing", "wrongExt", "noExt", "directory"}

\* ---- the tool's own log on standard output: one line per pipeline stage entered, before anything the
\* program writes.  (Outside the listed properties: a disagreement is reported as LOG-DRIFT, never as a
\* violation.)  A line is [k |-> kind, n |-> number]: "parsing" (n = 1: it names the file given),
\* "total" (n commands, only with --verbose), "optimizing" (to level n, only for n >= 1), "running".
Prelude(sub, level, verbose, ncmds) ==
  <<[k |-> "parsing", n |-> 1]>>
  \o (IF verbose THEN <<[k |-> "total", n |-> ncmds]>> ELSE <<>>)
  \o (IF sub = "run" THEN (IF level >= 1 THEN <<[k |-> "optimizing", n |-> level]>> ELSE <<>>)
                          \o <<[k |-> "running", n |-> 0]>>
      ELSE <<>>)
PrefixesOf(p) == {SubSeq(p, 1, k) : k \in 0 .. Len(p)}

\* the judgement of one recorded run: v: "ok" | "bad" | "skip" (the property), log: "ok" | "drift" | "none"
CliJudge(e, bound) ==
  LET hasLog == "log" \in DOMAIN e
      logIn(ps) == IF ~hasLog THEN "none" ELSE IF e.log \in ps THEN "ok" ELSE "drift"
      J(v, lg) == [v |-> v, log |-> lg]
  IN
  IF e.panicked THEN J("bad", "none")
  ELSE IF e.fileKind \in FileErrors THEN J(IF e.code = 1 /\ e.diag THEN "ok" ELSE "bad", logIn({<<>>}))
  ELSE LET f == Utf8Decode(e.file) IN
  IF ~f.ok THEN J(IF e.code = 1 /\ e.diag THEN "ok" ELSE "bad", logIn({<<>>}))     \* rejected before parsing
  ELSE LET cmds == Commands(f.cps)
           prog == [i \in DOMAIN cmds |-> Core(cmds[i])]
           P == Prelude(e.sub, e.level, hasLog /\ e.verbose, Len(prog))
           lg == IF e.timeout THEN logIn(PrefixesOf(P))
                 \* an error diagnosed at level >= 1 is raised either while optimising or while running
                 ELSE IF e.sub = "run" /\ e.level >= 1 /\ e.code = 1 /\ e.diag THEN logIn({P, Front(P)})
                 ELSE logIn({P})
       IN
  IF e.sub = "check" THEN J(IF e.code = 0 /\ ~e.timeout /\ e.lines = Len(prog) THEN "ok" ELSE "bad", lg)
  ELSE LET plan == InputPlan(e.stdin)
           r == RunCli(prog, plan, bound)
           S == r[2]
           so == Utf8Decode(e.stdout)
           se == Utf8Decode(e.stderr)
           v == IF S.status = "unspec" THEN "skip"
                ELSE IF ~so.ok \/ ~se.ok THEN "bad"
                ELSE IF PoisonFetched(S, plan) /\ S.status = "run" THEN
                     \* the program asked for input that is not UTF-8: diagnosed, status 1
                     (IF e.code = 1 /\ Len(e.stderr) > Len(Utf8Encode(r[1].err)) /\ IsPrefix(r[1].out, so.cps) /\ IsPrefix(so.cps, S.out)
                      THEN "ok" ELSE "bad")
                ELSE IF S.status = "encerr" THEN
                     (IF e.code = 1 /\ e.diag /\ IsPrefix(so.cps, S.out) THEN "ok" ELSE "bad")        \* diag: stderr not empty
                ELSE IF Running(S, prog) THEN
                     \* cut by the bound: possibly non-terminating; only prefix-compatibility is claimed
                     (IF (e.timeout \/ e.code \in {0, 1}) /\ (IsPrefix(so.cps, S.out) \/ IsPrefix(S.out, so.cps)) THEN "ok" ELSE "bad")
                ELSE IF /\ ~e.timeout
                        /\ e.code = (IF S.status = "exit1" THEN 1 ELSE 0)
                        /\ so.cps = S.out /\ se.cps = S.err
                     THEN "ok" ELSE "bad"
       IN J(v, IF v = "skip" THEN "none" ELSE lg)
\* the verdict for one recorded run; "ok" | "bad" | "skip"
CliVerdict(e, bound) == CliJudge(e, bound).v
=============================================================================
