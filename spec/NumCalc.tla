------------------------------ MODULE NumCalc ------------------------------
(***************************************************************************)
(* A register machine over HyNumbers values: the abstract view of any      *)
(* history of BigNum / Num operations (src/number/big_number.rs, num.rs).  *)
(* Four integer registers and four rational registers.  Every action of    *)
(* the implementation's public API is one `op` here; `Apply` gives the     *)
(* value the mathematics assigns to the destination register.              *)
(*                                                                         *)
(* The representation invariant of C05/C06 is the state invariant          *)
(* `AllCanonical`: whatever history is executed, every register holds a    *)
(* canonical value.  Trace_NumCalc replays recorded histories of the real  *)
(* code against this machine; MC_NumCalc explores it for a small base.     *)
(***************************************************************************)
EXTENDS HyNumbers

Regs == 0 .. 3

\* value of the destination integer register after an integer-valued op
\* (a, b: operand values; for unary ops b is ignored)
IntResult(op, a, b) ==
  CASE op = "add" -> IAdd(a, b)
    [] op = "sub" -> ISub(a, b)
    [] op = "mul" -> IMul(a, b)
    [] op = "div" -> IDiv(a, b)          \* b # 0
    [] op = "rem" -> IRem(a, b)          \* b # 0
    [] op = "neg" -> INeg(a)
    [] op = "gcd" -> I(FALSE, IGcdMag(a, b))
    [] op = "copy" -> a

IntOps2 == {"add", "sub", "mul", "div", "rem", "gcd"}
IntOps1 == {"neg", "copy"}
NeedsNonZeroB(op) == op \in {"div", "rem"}

\* value of the destination rational register
RatResult(op, a, b) ==
  CASE op = "radd" -> RAdd(a, b)
    [] op = "rmul" -> RMul(a, b)
    [] op = "rneg" -> RNeg(a)
    [] op = "rflip" -> RInv(a)
    [] op = "rcopy" -> a

RatOps2 == {"radd", "rmul"}
RatOps1 == {"rneg", "rflip", "rcopy"}

\* Unreduced numerator / denominator of a rational result: the result is THE canonical
\* fraction equal to RatNum/RatDen (used to judge results without computing a gcd).
RatNum(op, a, b) == IF op = "radd" THEN IAdd(IMul(a.num, b.den), IMul(b.num, a.den))
                    ELSE IMul(a.num, b.num)
RatDen(op, a, b) == IMul(a.den, b.den)

IntCmpText(a, b) == LET c == ICmp(a, b) IN IF c < 0 THEN "lt" ELSE IF c = 0 THEN "eq" ELSE "gt"

AllCanonicalRegs(ri, rr) ==
  /\ \A k \in Regs : IsCanonicalInt(ri[k])
  /\ \A k \in Regs : IsCanonicalRat(rr[k])
=============================================================================
