SPECIFICATION Spec
CONSTANTS
  B = 10
  K = 2
INVARIANT Agree
CHECK_DEADLOCK FALSE
