----------------------------- MODULE HyGrammar -----------------------------
(***************************************************************************)
(* What a Hyeo-ung source text MEANS: the declarative grammar behind       *)
(* properties C04 and C08 (src/core/parse.rs is the implementation,        *)
(* HyParser.tla its operational model).                                    *)
(*                                                                         *)
(* A text is a sequence of Unicode code points.  `Commands(text)` is       *)
(* defined by recursion over the text with no parser state:                *)
(*   - where commands start: a single-syllable command, or a start         *)
(*     syllable for which a matching end syllable occurs LATER in the text *)
(*   - where a multi-syllable command ends: the first matching end         *)
(*     syllable; every Hangul syllable from start to end counts            *)
(*   - its tail: dots are counted until the first area character and       *)
(*     ignored afterwards; area characters form a token list               *)
(*   - the area tree: split at `?`, then at `!`, both nest to the right,   *)
(*     the first heart of a slot counts                                    *)
(*   - location (1-based line, 0-based column counted in characters) and   *)
(*     the command's own significant characters (`raw`)                    *)
(* Whitespace never matters; every other character is ignored; text        *)
(* before the first command contributes nothing.                           *)
(***************************************************************************)
EXTENDS Integers, Sequences, FiniteSets, SequencesExt

--------------------------------------------------------------------------
\* character classes (code points)
SingleCmds == {54805, 54637, 54635, 55139, 55137, 55121}        \* 형 항 핫 흣 흡 흑
KindOfSingle(c) == CASE c = 54805 -> 0 [] c = 54637 -> 1 [] c = 54635 -> 2
                     [] c = 55139 -> 3 [] c = 55137 -> 4 [] c = 55121 -> 5
Starts == {54784, 54616, 55120}                                  \* 혀 하 흐
EndsOf(c) == CASE c = 54784 -> {50633}                           \* 엉
               [] c = 54616 -> {50521, 50519}                    \* 앙 앗
               [] c = 55120 -> {51023, 51021, 51005}             \* 읏 읍 윽
KindOfEnd(c) == CASE c = 50633 -> 0 [] c = 50521 -> 1 [] c = 50519 -> 2
                  [] c = 51023 -> 3 [] c = 51021 -> 4 [] c = 51005 -> 5
IsHangul(c) == c >= 44032 /\ c <= 55203                          \* U+AC00 .. U+D7A3
DotVal(c) == IF c = 46 THEN 1 ELSE IF c \in {8230, 8943, 8942} THEN 3 ELSE 0   \* . … ⋯ ⋮
Question == 63
Bang == 33
\* ♥ ❤ 💕 💖 💗 💘 💙 💚 💛 💜 💝 ♡  -> 2 .. 13
HeartType(c) == CASE c = 9829 -> 2 [] c = 10084 -> 3
                  [] c >= 128149 /\ c <= 128157 -> c - 128149 + 4
                  [] c = 9825 -> 13 [] OTHER -> 0
IsHeart(c) == HeartType(c) # 0
IsAreaChar(c) == c = Question \/ c = Bang \/ IsHeart(c)
\* Unicode White_Space
IsSpace(c) == \/ (c >= 9 /\ c <= 13) \/ c = 32 \/ c = 133 \/ c = 160 \/ c = 5760
              \/ (c >= 8192 /\ c <= 8202) \/ c \in {8232, 8233, 8239, 8287, 12288}
Newline == 10

--------------------------------------------------------------------------
\* areas: Nil = <<>> ; heart = <<"h", type>> ; operator = <<"?" | "!", left, right>>
Nil == <<>>
Heart(t) == <<"h", t>>

\* split a token sequence at a separator into its segments
RECURSIVE SplitAt(_,_)
SplitAt(toks, sep) ==
  IF toks = <<>> THEN << <<>> >>
  ELSE LET r == SplitAt(Tail(toks), sep)
       IN IF Head(toks) = sep THEN << <<>> >> \o r
          ELSE << <<Head(toks)>> \o r[1] >> \o Tail(r)
\* a slot holds its first heart, or nothing
Slot(s) == IF s = <<>> THEN Nil ELSE Heart(HeartType(s[1]))
RECURSIVE BangTree(_)
BangTree(slots) == IF Len(slots) = 1 THEN Slot(slots[1])
                   ELSE <<"!", Slot(slots[1]), BangTree(Tail(slots))>>
RECURSIVE QuTree(_)
QuTree(segs) == IF Len(segs) = 1 THEN BangTree(SplitAt(segs[1], Bang))
                ELSE <<"?", BangTree(SplitAt(segs[1], Bang)), QuTree(Tail(segs))>>
\* ? binds loosest, ! next, both nest to the right
AreaTree(toks) == QuTree(SplitAt(toks, Question))

--------------------------------------------------------------------------
\* where commands are
HasEndAfter(t, i, c) == \E j \in (i+1) .. Len(t) : t[j] \in EndsOf(c)
IsStartAt(t, i) == t[i] \in SingleCmds \/ (t[i] \in Starts /\ HasEndAfter(t, i, t[i]))
RECURSIVE FirstEnd(_,_,_)
FirstEnd(t, j, c) == IF t[j] \in EndsOf(c) THEN j ELSE FirstEnd(t, j+1, c)
\* the hangul syllables of t[a..b], in order
HangulOf(t, a, b) == SelectSeq(SubSeq(t, a, b), IsHangul)

\* the tail of a command: from position i up to the next command start
\* d: dots counted so far; toks: area tokens; raw: significant characters
RECURSIVE TailScan(_,_,_,_,_)
TailScan(t, i, d, toks, raw) ==
  IF i > Len(t) \/ IsStartAt(t, i) THEN [d |-> d, toks |-> toks, raw |-> raw, next |-> i]
  ELSE IF DotVal(t[i]) > 0
       THEN IF toks = <<>> THEN TailScan(t, i+1, d + DotVal(t[i]), toks, Append(raw, t[i]))
                           ELSE TailScan(t, i+1, d, toks, raw)
  ELSE IF IsAreaChar(t[i]) THEN TailScan(t, i+1, d, Append(toks, t[i]), Append(raw, t[i]))
  ELSE TailScan(t, i+1, d, toks, raw)

\* location of position i: 1-based line, 0-based column in characters
LineOf(t, i) == 1 + Cardinality({j \in 1 .. (i-1) : t[j] = Newline})
ColOf(t, i) == LET nl == {j \in 1 .. (i-1) : t[j] = Newline}
               IN IF nl = {} THEN i - 1
                  ELSE (i - 1) - (CHOOSE m \in nl : \A k \in nl : k <= m)

\* the command that starts at position i (IsStartAt(t, i)), and where scanning resumes after it
CommandAt(t, i) ==
  LET single == t[i] \in SingleCmds
      e  == IF single THEN i ELSE FirstEnd(t, i+1, t[i])
      k  == IF single THEN KindOfSingle(t[i]) ELSE KindOfEnd(t[e])
      h  == IF single THEN 1 ELSE Len(HangulOf(t, i, e))
      ts == TailScan(t, e+1, 0, <<>>, <<>>)
  IN [cmd |-> [k |-> k, h |-> h, d |-> ts.d, a |-> AreaTree(ts.toks),
               line |-> LineOf(t, i), col |-> ColOf(t, i),
               raw |-> (IF single THEN <<t[i]>> ELSE HangulOf(t, i, e)) \o ts.raw],
      next |-> ts.next]

\* Commands from position i on.  (Kept as the defining recursion; Commands below computes the same
\* sequence as a strict left fold over the positions, which TLC evaluates in linear rather than
\* cubic time on long texts.)
RECURSIVE Cmds(_,_)
Cmds(t, i) ==
  IF i > Len(t) THEN <<>>
  ELSE IF ~IsStartAt(t, i) THEN Cmds(t, i+1)
  ELSE LET c == CommandAt(t, i) IN <<c.cmd>> \o Cmds(t, c.next)

Commands(t) ==
  FoldLeft(LAMBDA acc, i : IF i < acc.next \/ ~IsStartAt(t, i) THEN acc
                           ELSE LET c == CommandAt(t, i) IN [next |-> c.next, cmds |-> Append(acc.cmds, c.cmd)],
           [next |-> 1, cmds |-> <<>>], [i \in 1 .. Len(t) |-> i]).cmds


\* an area tree in prefix notation as a flat sequence: 0 = Nil, 63 = ?, 33 = !, 100+t = heart t
\* (the form in which harness and TLC exchange trees; deep trees stay flat in JSON)
RECURSIVE Prefix(_)
Prefix(a) == IF a = Nil THEN <<0>>
             ELSE IF a[1] = "h" THEN <<100 + a[2]>>
             ELSE <<IF a[1] = "?" THEN Question ELSE Bang>> \o Prefix(a[2]) \o Prefix(a[3])
Flat(c) == [k |-> c.k, h |-> c.h, d |-> c.d, ap |-> Prefix(c.a), line |-> c.line, col |-> c.col, raw |-> c.raw]
Flats(cs) == [i \in DOMAIN cs |-> Flat(cs[i])]

\* a command without its location and raw text (what C08's round trip compares)
Core(c) == [k |-> c.k, h |-> c.h, d |-> c.d, a |-> c.a]
Cores(cs) == [i \in DOMAIN cs |-> Core(cs[i])]
RECURSIVE ConcatRaws(_)
ConcatRaws(cs) == IF cs = <<>> THEN <<>> ELSE Head(cs).raw \o ConcatRaws(Tail(cs))

--------------------------------------------------------------------------
\* the listing printed by `hyeong check`:  <syllable>_<h>_<d> <area>   (Area's Display)
RECURSIVE AreaDisplay(_)
HeartChar(ty) == CASE ty = 2 -> 9829 [] ty = 3 -> 10084 [] ty = 13 -> 9825 [] OTHER -> 128149 + ty - 4
AreaDisplay(a) ==
  IF a = Nil THEN <<95>>                                         \* _
  ELSE IF a[1] = "h" THEN <<HeartChar(a[2])>>
  ELSE <<91>> \o AreaDisplay(a[2]) \o <<93, IF a[1] = "?" THEN Question ELSE Bang, 91>>
       \o AreaDisplay(a[3]) \o <<93>>
\* ---- the listing line of `check` and its inverse
CmdSyllable(k) == CASE k = 0 -> 54805 [] k = 1 -> 54637 [] k = 2 -> 54635
                    [] k = 3 -> 55139 [] k = 4 -> 55137 [] k = 5 -> 55121
RECURSIVE Dec(_)
Dec(n) == IF n < 10 THEN <<48 + n>> ELSE Dec(n \div 10) \o <<48 + (n % 10)>>
ListLine(c) == <<CmdSyllable(c.k), 95>> \o Dec(c.h) \o <<95>> \o Dec(c.d) \o <<32>> \o AreaDisplay(c.a)

RECURSIVE ReadNat(_,_,_)
ReadNat(s, i, acc) == IF i <= Len(s) /\ s[i] >= 48 /\ s[i] <= 57 THEN ReadNat(s, i+1, acc*10 + s[i] - 48)
                      ELSE <<acc, i>>
RECURSIVE ReadArea(_,_)
ReadArea(s, i) ==
  IF s[i] = 95 THEN <<Nil, i+1>>
  ELSE IF IsHeart(s[i]) THEN <<Heart(HeartType(s[i])), i+1>>
  ELSE \* '[' left ']' op '[' right ']'
       LET l == ReadArea(s, i+1)
           op == s[l[2] + 1]
           r == ReadArea(s, l[2] + 3)
       IN << <<IF op = Question THEN "?" ELSE "!", l[1], r[1]>>, r[2] + 1 >>
ReadLine(s) ==
  LET k == CHOOSE k \in 0 .. 5 : CmdSyllable(k) = s[1]
      h == ReadNat(s, 3, 0)
      d == ReadNat(s, h[2] + 1, 0)
      a == ReadArea(s, d[2] + 1)
  IN [k |-> k, h |-> h[1], d |-> d[1], a |-> a[1]]

\* a full line of `hyeong check`:  <index><pad> | <file>:<line>:<col><pad>  <listing>
RECURSIVE SkipTo(_,_,_)
SkipTo(s, i, c) == IF i > Len(s) THEN i ELSE IF s[i] = c THEN i ELSE SkipTo(s, i+1, c)
RECURSIVE SkipSpaces(_,_)
SkipSpaces(s, i) == IF i <= Len(s) /\ s[i] = 32 THEN SkipSpaces(s, i+1) ELSE i
ReadCheckLine(s) ==
  LET idx  == ReadNat(s, 1, 0)
      bar  == SkipTo(s, idx[2], 124)                 \* |
      col1 == SkipTo(s, bar, 58)                     \* : after the file name
      ln   == ReadNat(s, col1 + 1, 0)
      cl   == ReadNat(s, ln[2] + 1, 0)
      body == SkipSpaces(s, cl[2])
  IN [idx |-> idx[1], line |-> ln[1], col |-> cl[1], core |-> ReadLine(SubSeq(s, body, Len(s)))]
=============================================================================
