-------------------------- MODULE Trace_HyOptimize --------------------------
(***************************************************************************)
(* Mechanism binding for HyOptimize (diagnostic only, never a verdict).    *)
(* hv-exec optdump records what the real optimize() produced for a program *)
(* at level 1 (renumbered commands, vector size) and level 2 (how many     *)
(* commands were pre-executed and the state left behind).  This module     *)
(* evaluates Renumber / StackCount / PreExec with the code's own budget    *)
(* (Budget = 100) and prints a DRIFT line for every difference: the        *)
(* properties do not promise slot numbers or the stop index, but a drift   *)
(* means the specification no longer describes the code's mechanism and    *)
(* the theorems model-checked on it no longer transfer.                    *)
(***************************************************************************)
EXTENDS HyOptimize, Json, IOUtils

Rec == ndJsonDeserialize(IOEnv.TRACE)
VARIABLES l
RECURSIVE FromPrefixR(_,_)
FromPrefixR(ap, i) ==
  IF ap[i] = 0 THEN <<Nil, i + 1>>
  ELSE IF ap[i] \in {63, 33}
       THEN LET lft == FromPrefixR(ap, i + 1)
                rgt == FromPrefixR(ap, lft[2])
            IN << <<IF ap[i] = 63 THEN "?" ELSE "!", lft[1], rgt[1]>>, rgt[2] >>
  ELSE << <<"h", ap[i] - 100>>, i + 1 >>
CmdOf(j) == [k |-> j.k, h |-> j.h, d |-> j.d, a |-> FromPrefixR(j.ap, 1)[1]]
ProgOf(js) == [i \in DOMAIN js |-> CmdOf(js[i])]
ValOf(v) == IF v[4] = <<>> THEN NaN ELSE R([neg |-> v[1], mag |-> v[2]], [neg |-> v[3], mag |-> v[4]])
StOf(st) == [i \in {p[1] : p \in {st[x] : x \in DOMAIN st}} |->
               LET p == CHOOSE p \in {st[x] : x \in DOMAIN st} : p[1] = i IN [j \in DOMAIN p[2] |-> ValOf(p[2][j])]]
LabelsOf(ls) == [id \in {<<ls[x][1], ls[x][2]>> : x \in DOMAIN ls} |->
                   (CHOOSE x \in DOMAIN ls : <<ls[x][1], ls[x][2]>> = id) ]
Shape(c) == [k |-> c.k, h |-> c.h, d |-> c.d, cnt |-> c.cnt]

Drifts(e) ==
  LET prog == ProgOf(e.prog)
      RP == Renumber(prog)
      want == [i \in DOMAIN RP |-> Shape(RP[i])] IN
  IF ~e.ok THEN {}
  ELSE IF e.level = 1 THEN
       (IF e.code # want THEN {"level-1 renumbered commands"} ELSE {})
       \cup (IF e.size # StackCount(prog) THEN {"level-1 vector size"} ELSE {})
  ELSE LET P == PreExec(RP, InitState(<<>>)) IN
       IF P.S.status # "run" THEN {}       \* optimize() returned an error: nothing to compare
       ELSE (IF e.k # P.k THEN {"level-2 number of pre-executed commands"} ELSE {})
            \cup (IF e.k = P.k /\ e.code # SubSeq(want, P.k + 1, Len(want)) THEN {"level-2 residual commands"} ELSE {})
            \cup (IF e.k = P.k /\ e.cur # P.S.cur THEN {"level-2 selected stack"} ELSE {})
            \cup (IF e.k = P.k /\ e.last # P.S.last THEN {"level-2 last jump source"} ELSE {})
            \cup (IF e.k = P.k /\ StOf(e.st) # [i \in (DOMAIN P.S.st) \ {1, 2} |-> P.S.st[i]] THEN {"level-2 stacks"} ELSE {})
            \cup (IF e.k = P.k /\ e.out # P.S.out THEN {"level-2 captured stdout"} ELSE {})
            \cup (IF e.k = P.k /\ e.err # P.S.err THEN {"level-2 captured stderr"} ELSE {})
            \cup (IF e.k = P.k /\ {<<e.labels[x][1], e.labels[x][2], e.labels[x][3]>> : x \in DOMAIN e.labels}
                                   # {<<id[1], id[2], P.S.labels[id]>> : id \in DOMAIN P.S.labels}
                  THEN {"level-2 label table"} ELSE {})

Init == l = 1
Next == /\ l <= Len(Rec)
        /\ LET d == Drifts(Rec[l]) IN
           IF d = {} THEN TRUE ELSE PrintT(<<"DRIFT", l, Rec[l].level, ToJson(d), ToJson(Rec[l].prog)>>)
        /\ l' = l + 1
Spec == Init /\ [][Next]_l
Accepted == PrintT(<<"TRACE-END", TLCGet("stats").diameter - 1, Len(Rec)>>)
=============================================================================
