SPECIFICATION Spec
CONSTANTS
  B = 256
  RunBound = 400
  LineBound = 400
POSTCONDITION Accepted
CHECK_DEADLOCK FALSE
