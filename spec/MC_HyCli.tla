------------------------------- MODULE MC_HyCli -------------------------------
(* (M) for C13: the specification's own UTF-8 model, the classifier of every file and input.     *)
(* For every byte string of up to MaxLen bytes over boundary bytes: decoding succeeds exactly on *)
(* the strings that are the encoding of a sequence of scalar values (shortest form), and the     *)
(* input plan splits standard input consistently.                                               *)
EXTENDS HyCli, TLC
CONSTANTS MaxLen, Bytes
VARIABLE bs
Init == bs = <<>>
Next == Len(bs) < MaxLen /\ \E b \in Bytes : bs' = Append(bs, b)
Spec == Init /\ [][Next]_bs
DecodeSound == LET d == Utf8Decode(bs) IN
               d.ok => (Utf8Encode(d.cps) = bs /\ \A i \in DOMAIN d.cps : IsScalar(d.cps[i]))
\* completeness over the scalar values these bytes can spell: every 1- and 2-element scalar sequence whose
\* encoding is bs decodes to it
DecodeComplete == \A c \in {65, 10, 233, 2048, 55295, 57344, 65533, 65536, 1114111} :
                    (Utf8Enc1(c) = bs) => (Utf8Decode(bs).ok /\ Utf8Decode(bs).cps = <<c>>)
PlanConsistent ==
  LET p == InputPlan(bs) IN
  /\ \A i \in DOMAIN p.lines : Utf8Decode(ByteLines(bs, <<>>)[i]).ok
  /\ (p.poisoned <=> \E i \in DOMAIN ByteLines(bs, <<>>) : ~Utf8Decode(ByteLines(bs, <<>>)[i]).ok)
\* the tool's log (HyCli!Prelude): one line per stage, stages in pipeline order, nothing twice
ASSUME PreludeShape ==
  \A sub \in {"run", "check"}, level \in 0 .. 2, verbose \in BOOLEAN, n \in 0 .. 3 :
    LET P == Prelude(sub, level, verbose, n) IN
    /\ P[1] = [k |-> "parsing", n |-> 1]
    /\ (sub = "run") = (P[Len(P)].k = "running")
    /\ \A i, j \in DOMAIN P : i # j => P[i].k # P[j].k
    /\ (\E i \in DOMAIN P : P[i] = [k |-> "optimizing", n |-> level]) = (sub = "run" /\ level >= 1)
    /\ (\E i \in DOMAIN P : P[i] = [k |-> "total", n |-> n]) = verbose
=============================================================================
