----------------------------- MODULE HyDebugger -----------------------------
(***************************************************************************)
(* The history-stack debugger of src/app/debug.rs (property C11).          *)
(*                                                                         *)
(* A debugger state D is a record                                          *)
(*   hist   sequence of machine states (state_stack): hist[1] is the       *)
(*          initial state, the last element is the current one             *)
(*   bps    set of break-pointed command indices (initially {0})           *)
(*   alive  "prompt" (waiting for a command) | "ended" (program finished,  *)
(*          status 0) | "exit0" | "exit1" (requested by the program) |     *)
(*          "eof" (end of the command script, status 0) | "noclaim"        *)
(*          (encoding error, unspecified output, or a `run` that does not  *)
(*          come back within RunBound steps: nothing is claimed)           *)
(*   shown  what the user has been shown that the property talks about:    *)
(*          <<"state", cur, stacks>>  a state display                      *)
(*          <<"out", text>>, <<"err", text>>  a chunk of program output    *)
(*          <<"end", status>>                                              *)
(* One operator per debugger command (CmdNext, CmdPrevious, CmdRun with    *)
(* its internal RunLoop, CmdState, CmdBreak, CmdBreakList, ...), as the    *)
(* arms of the `match` in debug.rs; the two CustomWriter buffers are the   *)
(* text written since the last flush.                                      *)
(***************************************************************************)
EXTENDS HyMachine
CONSTANT RunBound

Top(D) == D.hist[Len(D.hist)]
DbgInit(input) == [hist |-> <<InitState(input)>>, bps |-> {0}, alive |-> "prompt", shown |-> <<>>]

\* the state display: selected stack and every non-empty stack with its values as text
StateView(S) == <<"state", S.cur, [i \in DOMAIN S.st |-> [j \in DOMAIN S.st[i] |-> RToText(S.st[i][j])]]>>

\* text written between machine states A (earlier) and Z: the pending buffers
Delta(a, z) == SubSeq(z, Len(a) + 1, Len(z))
Flush(shown, A, Z) ==
  LET o == Delta(A.out, Z.out)  e == Delta(A.err, Z.err)
      s1 == IF o = <<>> THEN shown ELSE Append(shown, <<"out", o>>)
  IN IF e = <<>> THEN s1 ELSE Append(s1, <<"err", e>>)

\* after a flush at the prompt: has the program run off its end?  (`while pc < len` in debug.rs)
Settle(D, prog) ==
  IF D.alive = "prompt" /\ Top(D).pc >= Len(prog)
  THEN [D EXCEPT !.alive = "ended", !.shown = Append(@, <<"end", 0>>)] ELSE D

\* push one executed step; `from` is the machine state at the last flush
PushStep(D, prog, from) ==
  LET T == Step(Top(D), prog) IN
  IF T.status \in {"exit0", "exit1"}
  THEN \* the library flushes both buffers and ends the process
       [D EXCEPT !.alive = T.status, !.shown = Append(Flush(@, from, T), <<"end", IF T.status = "exit0" THEN 0 ELSE 1>>)]
  ELSE IF T.status # "run" THEN [D EXCEPT !.alive = "noclaim"]
  ELSE [D EXCEPT !.hist = Append(@, T)]

CmdNext(D, prog) ==
  LET from == Top(D)
      D1 == PushStep(D, prog, from)
  IN IF D1.alive # "prompt" THEN D1
     ELSE Settle([D1 EXCEPT !.shown = Flush(@, from, Top(D1))], prog)

CmdPrevious(D) == IF Len(D.hist) > 1 THEN [D EXCEPT !.hist = SubSeq(@, 1, Len(@) - 1)] ELSE D

\* `run`: one step unconditionally, then steps until the current command carries a breakpoint
CmdRun(D, prog) ==
  LET from == Top(D)
      D1 == PushStep(D, prog, from)
      loop(acc, i) ==
        IF acc.alive # "prompt" \/ acc.stop THEN acc
        ELSE IF Top(acc).pc >= Len(prog) THEN [acc EXCEPT !.stop = TRUE]
        ELSE IF Top(acc).pc \in acc.bps THEN [acc EXCEPT !.stop = TRUE]          \* RunStop
        ELSE PushStep(acc, prog, from)                                            \* RunStep
      Rr == FoldLeft(loop, [hist |-> D1.hist, bps |-> D1.bps, alive |-> D1.alive, shown |-> D1.shown, stop |-> FALSE],
                     [i \in 1 .. RunBound |-> i])
      D2 == [hist |-> Rr.hist, bps |-> Rr.bps, alive |-> Rr.alive, shown |-> Rr.shown]
  IN IF D2.alive # "prompt" THEN D2
     ELSE IF ~Rr.stop THEN [D2 EXCEPT !.alive = "noclaim"]                        \* still running
     ELSE Settle([D2 EXCEPT !.shown = Flush(@, from, Top(D2))], prog)

CmdState(D) == [D EXCEPT !.shown = Append(@, StateView(Top(D)))]
\* break N: numbers at and beyond the program length are refused
CmdBreak(D, n, prog) ==
  IF n >= Len(prog) THEN D
  ELSE IF n \in D.bps THEN [D EXCEPT !.bps = @ \ {n}] ELSE [D EXCEPT !.bps = @ \cup {n}]
\* break (list): every listed break point must be a command of the program - otherwise the listing
\* has nothing to print for it (this is what forces the range test of CmdBreak)
BreakListDefined(D, prog) == \A n \in D.bps : n < Len(prog)
CmdEof(D) == [D EXCEPT !.alive = "eof", !.shown = Append(@, <<"end", 0>>)]

\* commands: <<"n">>, <<"p">>, <<"r">>, <<"s">>, <<"b", n>>, <<"bl">>, <<"h">>, <<"x">>, <<"">>
DbgStep(D, c, prog) ==
  IF D.alive # "prompt" THEN D
  ELSE CASE c[1] = "n" -> CmdNext(D, prog)
         [] c[1] = "p" -> CmdPrevious(D)
         [] c[1] = "r" -> CmdRun(D, prog)
         [] c[1] = "s" -> CmdState(D)
         [] c[1] = "b" -> CmdBreak(D, c[2], prog)
         [] OTHER -> D                                   \* list, help, unknown word, blank line
\* a program of zero commands ends before the first prompt
DbgStart(input, prog) == Settle(DbgInit(input), prog)
DbgRun(input, prog, script) ==
  LET D == FoldLeft(LAMBDA acc, c : DbgStep(acc, c, prog), DbgStart(input, prog), script)
  IN IF D.alive = "prompt" THEN CmdEof(D) ELSE D

\* ------------------------------------------------------------------ invariants
\* the history is exactly the iterated step function: whatever `previous` / `next` / `run` did,
\* hist[i] is the state after i-1 commands - so the displayed state after a net number of k steps
\* is the interpreter's state after k commands, and `previous` restores exactly
HistCoherent(D, input, prog) ==
  /\ D.hist[1] = InitState(input)
  /\ \A i \in 1 .. Len(D.hist) - 1 : D.hist[i + 1] = Step(D.hist[i], prog)
=============================================================================
