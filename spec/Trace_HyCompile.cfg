SPECIFICATION Spec
CONSTANTS
  B = 256
  Budget = 100
  Guards = {"kind", "area", "budget"}
POSTCONDITION Accepted
CHECK_DEADLOCK FALSE
