---------------------------- MODULE MC_HyMachine ----------------------------
(***************************************************************************)
(* (M) Exhaustive exploration of HyMachine over all programs of up to      *)
(* MaxLen commands from a finite command alphabet ("slice") and all        *)
(* inputs of a finite family.  The program is grown lazily: a command is   *)
(* appended only when control reaches the end of what exists (jumps only   *)
(* go backwards - invariant BackwardOnly), so TLC explores the tree of     *)
(* programs without ever building the set of programs.                     *)
(* (R) Every completed behaviour is printed (program, input, observable    *)
(* result); the harness runs it through the real interpreter, records the  *)
(* state after every command and Trace_HyMachine validates that trace.     *)
(***************************************************************************)
EXTENDS HyMachine, HyGrammar, HySlices, TLC, Json
CONSTANTS MaxLen, MaxSteps, MaxDigits, DumpOn

VARIABLES prog, m, steps, input
vars == <<prog, m, steps, input>>

Init == /\ prog = <<>> /\ steps = 0 /\ input \in Inputs /\ m = InitState(input)
Grow == /\ m.status = "run" /\ m.pc = Len(prog) /\ Len(prog) < MaxLen
        /\ \E c \in Alphabet : prog' = Append(prog, c)
        /\ UNCHANGED <<m, steps, input>>
\* one named action per command kind, so that -coverage reports how often each kind was executed
RunPush == /\ Running(m, prog) /\ steps < MaxSteps /\ prog[m.pc + 1].k = 0
           /\ m' = Step(m, prog) /\ steps' = steps + 1 /\ UNCHANGED <<prog, input>>
RunAdd == /\ Running(m, prog) /\ steps < MaxSteps /\ prog[m.pc + 1].k = 1
          /\ m' = Step(m, prog) /\ steps' = steps + 1 /\ UNCHANGED <<prog, input>>
RunMultiply == /\ Running(m, prog) /\ steps < MaxSteps /\ prog[m.pc + 1].k = 2
               /\ m' = Step(m, prog) /\ steps' = steps + 1 /\ UNCHANGED <<prog, input>>
RunNegateSum == /\ Running(m, prog) /\ steps < MaxSteps /\ prog[m.pc + 1].k = 3
                /\ m' = Step(m, prog) /\ steps' = steps + 1 /\ UNCHANGED <<prog, input>>
RunInvertProduct == /\ Running(m, prog) /\ steps < MaxSteps /\ prog[m.pc + 1].k = 4
                    /\ m' = Step(m, prog) /\ steps' = steps + 1 /\ UNCHANGED <<prog, input>>
RunDuplicate == /\ Running(m, prog) /\ steps < MaxSteps /\ prog[m.pc + 1].k = 5
                /\ m' = Step(m, prog) /\ steps' = steps + 1 /\ UNCHANGED <<prog, input>>
Next == Grow \/ RunPush \/ RunAdd \/ RunMultiply \/ RunNegateSum \/ RunInvertProduct \/ RunDuplicate
Spec == Init /\ [][Next]_vars

\* keep values within a few digits so that exploration stays finite
Small == \A i \in DOMAIN m.st : \A j \in DOMAIN m.st[i] :
           IsNaN(m.st[i][j]) \/ (Len(m.st[i][j].num.mag) <= MaxDigits /\ Len(m.st[i][j].den.mag) <= MaxDigits)

\* ---- invariants (state predicates)
InvNoNaNAtBottom == NoNaNAtBottom(m)
InvCanonical == AllCanonicalValues(m)
InvBackwardOnly == BackwardOnly(m, prog)
\* ---- action properties
LabelsWriteOnce == [][\A id \in DOMAIN m.labels : id \in DOMAIN m'.labels /\ m'.labels[id] = m.labels[id]]_vars
OutputAppendOnly == [][IsPrefix(m.out, m'.out) /\ IsPrefix(m.err, m'.err)]_vars
ExitIsFinal == [][m.status # "run" => m' = m]_vars
InputOnlyConsumed == [][IsSuffix(m'.inp, m.inp)]_vars
\* ---- control-flow discipline (design facts of the language definition, checked in every explored step)
LabelTargets(S) == {S.labels[id] : id \in DOMAIN S.labels}
\* control moves to the next command, to a recorded label, or back to the last jump source - nowhere else
PcDiscipline == [][(steps' = steps + 1 /\ m'.status = "run") =>
                     \/ m'.pc = m.pc + 1
                     \/ m'.pc \in LabelTargets(m)
                     \/ (m.last # NoLast /\ m'.pc = m.last)]_vars
\* the last jump source changes only when a label jump is taken, and then it is the jumping command
LastDiscipline == [][m'.last # m.last => (m'.last = m.pc /\ m'.pc \in LabelTargets(m) /\ m'.pc # m.pc)]_vars
\* a label is recorded at the command that mentions it first, and at most one per step
LabelAtSource == [][\A id \in (DOMAIN m'.labels) \ (DOMAIN m.labels) : m'.labels[id] = m.pc /\ m'.pc = m.pc + 1]_vars
OneLabelPerStep == [][Cardinality((DOMAIN m'.labels) \ (DOMAIN m.labels)) <= 1]_vars
\* the selected stack changes only through a duplicate command, to its dot count
CurDiscipline == [][m'.cur # m.cur => (prog[m.pc + 1].k = 5 /\ m'.cur = prog[m.pc + 1].d)]_vars
\* a program without areas runs straight through: one command per step
JumpFree == \A i \in DOMAIN prog : prog[i].a = Nil
InvStraightLine == (JumpFree /\ m.status = "run") => (m.pc = steps /\ m.last = NoLast /\ DOMAIN m.labels = {})
\* stacks 1 and 2 (the output stacks) never hold anything: a push there is printed at once
InvOutputStacksEmpty == (DOMAIN m.st) \cap {1, 2} = {}

\* a behaviour is complete when the run has ended one way or another, or the step bound cut it;
\* a run standing at the end of the program is the normal end of that (possibly shorter) program
Completed == m.status # "run" \/ steps = MaxSteps \/ (m.pc = Len(prog) /\ Len(prog) >= 1)
FlatCmd(c) == [k |-> c.k, h |-> c.h, d |-> c.d, ap |-> Prefix(c.a)]
Dump == (DumpOn /\ Completed) =>
          PrintT(<<"REPLAY", ToJson([prog |-> [i \in DOMAIN prog |-> FlatCmd(prog[i])], input |-> input,
                                     out |-> m.out, err |-> m.err, ending |-> Ending(m, prog), steps |-> steps])>>)
=============================================================================
