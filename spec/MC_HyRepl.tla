------------------------------ MODULE MC_HyRepl ------------------------------
(* (M) for C12: for every input-free program of up to MaxLen commands over a slice alphabet and   *)
(* every way of cutting it into lines, the per-line outputs concatenate to the whole-program      *)
(* output and the session ends the same way; after `clear` a program behaves as in a fresh        *)
(* session.  (R) sessions are printed and replayed through the real interactive interpreter.      *)
EXTENDS HyRepl, HySlices, HyGrammar, TLC, Json
CONSTANTS MaxLen, MaxSteps, DumpOn
VARIABLES prog
Init == prog = <<>>
Next == Len(prog) < MaxLen /\ \E c \in Alphabet : prog' = Append(prog, c)
Spec == Init /\ [][Next]_prog

\* all cuts of prog into consecutive non-empty lines: subsets of the inner boundaries
Cuts == SUBSET (1 .. (Len(prog) - 1))
LinesOf(cut) ==
  LET bs == SetToSeq(cut)    \* any order; sort below
      Sorted == SortSeq(bs, LAMBDA a, b : a < b)
      starts == <<0>> \o Sorted
      ends == Sorted \o <<Len(prog)>>
  IN [i \in 1 .. Len(starts) |-> [kind |-> "code", cmds |-> SubSeq(prog, starts[i] + 1, ends[i])]]
NoInput == ~PopsInputFor(InitState(<<>>), prog, MaxSteps)
EveryCutSameAsWhole == (Len(prog) >= 1 /\ NoInput) => \A cut \in Cuts : SameAsWhole(LinesOf(cut), MaxSteps)
\* `clear` returns to the initial state: X, clear, P shows for P what a fresh session shows
ClearResets ==
  (Len(prog) >= 2 /\ NoInput) =>
     LET Xl == [kind |-> "code", cmds |-> SubSeq(prog, 1, 1)]
         P == [kind |-> "code", cmds |-> SubSeq(prog, 2, Len(prog))]
         A == ReplRun(<<Xl, [kind |-> "clear"], P>>)
         F == ReplRun(<<P>>)
     IN A.alive = "noclaim" \/ F.alive = "noclaim" \/ Len(A.segs) < 3
        \/ (A.segs[3] = F.segs[1] /\ A.alive = F.alive)
FlatCmd(c) == [k |-> c.k, h |-> c.h, d |-> c.d, ap |-> Prefix(c.a)]
FlatLines(ls) == [i \in DOMAIN ls |-> [kind |-> "code", cmds |-> [j \in DOMAIN ls[i].cmds |-> FlatCmd(ls[i].cmds[j])]]]
Dump == (DumpOn /\ Len(prog) >= 1 /\ NoInput) =>
          \A cut \in Cuts : (ReplRun(LinesOf(cut)).alive # "noclaim") =>      \* hanging sessions are not replayed
                              PrintT(<<"REPLAY", ToJson([lines |-> FlatLines(LinesOf(cut))])>>)
=============================================================================
