------------------------------- MODULE MC_Cat -------------------------------
(***************************************************************************)
(* (M) for C14: the copy programs reproduce every input text.              *)
(* For every text of up to MaxLen characters over {a, U+0000, line feed,   *)
(* U+10000} the language definition (HyMachine) makes                      *)
(*   CatN(n)  copy exactly the first n characters,                         *)
(*   CatLoop  copy a non-empty input completely and then end normally      *)
(*            (the language has no forward jump, so one more character is  *)
(*            unavoidable on empty input - TLC establishes the exact       *)
(*            domain),                                                     *)
(* and a pop from stack 0 yields NaN exactly when the input is exhausted   *)
(* (EofIsNaN), in every state these runs go through.                       *)
(***************************************************************************)
EXTENDS HyMachine, TLC
CONSTANTS MaxLen, Chars

H(t) == <<"h", t>>
Cm(k, h, d, a) == [k |-> k, h |-> h, d |-> d, a |-> a]
\* 흑 항♥ 항. 흑 형. 하앙 흣..... 항♥?
CatLoop == << Cm(5,1,0,Nil), Cm(1,1,0,H(2)), Cm(1,1,1,Nil), Cm(5,1,0,Nil), Cm(0,1,1,Nil), Cm(1,2,0,Nil), Cm(3,1,5,Nil),
              Cm(1,1,0,<<"?", H(2), Nil>>) >>
CatN(n) == << Cm(5,1,0,Nil) >> \o [i \in 1 .. n |-> Cm(1,1,1,Nil)]

VARIABLES text, m, phase
vars == <<text, m, phase>>
\* phase "grow": the text is extended; phase "run": CatLoop runs on it step by step
Init == text = <<>> /\ m = InitState(<<>>) /\ phase = "grow"
Grow == /\ phase = "grow" /\ Len(text) < MaxLen
        /\ \E c \in Chars : text' = Append(text, c)
        /\ UNCHANGED <<m, phase>>
Start == /\ phase = "grow" /\ phase' = "run" /\ m' = InitState(text) /\ UNCHANGED text
Run == /\ phase = "run" /\ Running(m, CatLoop) /\ m' = Step(m, CatLoop) /\ UNCHANGED <<text, phase>>
Next == Grow \/ Start \/ Run
Spec == Init /\ [][Next]_vars

Bound == 10 * (MaxLen + 2)
CatLoopCopies ==
  (phase = "grow" /\ text # <<>>) =>
     LET S == RunFor(InitState(text), CatLoop, Bound) IN
     S.out = text /\ S.err = <<>> /\ Ending(S, CatLoop) = "end"
CatNCopies ==
  phase = "grow" =>
     \A n \in 0 .. Len(text) :
        LET S == RunFor(InitState(text), CatN(n), n + 2) IN
        S.out = SubSeq(text, 1, n) /\ Ending(S, CatN(n)) = "end"
\* reading past the end gives NaN, printed as the NaN text
CatNPastEnd ==
  phase = "grow" =>
     LET n == Len(text) + 1
         S == RunFor(InitState(text), CatN(n), n + 2) IN
     S.out = text \o NaNText
\* in every state of a CatLoop run: a pop from stack 0 is NaN iff input and buffer are exhausted
EofIsNaN ==
  phase = "run" => (IsNaN(PopWrap(m, 0)[2]) <=> (m.inp = <<>> /\ Stk(m, 0) = <<>>))
\* and the copy so far is always a prefix of the text
PrefixSoFar == (phase = "run" /\ text # <<>>) => IsPrefix(m.out, text)
=============================================================================
