------------------------------ MODULE HyCompile ------------------------------
(***************************************************************************)
(* The program src/core/compile.rs emits, as a machine (property C03).     *)
(*                                                                         *)
(* build_source lays the commands out in BLOCKS: every area-carrying       *)
(* command is alone in its block and ends it; the commands pre-executed at *)
(* level 2 come first (they are still needed: the residual part can jump   *)
(* back into them), then the residual commands, which start a block of     *)
(* their own.  The emitted main() is                                       *)
(*     restore pre-state; state = StartBlock;                              *)
(*     while state < #blocks { dispatch(state) { run block; areas: jump =  *)
(*     `state = v; continue` }  state += 1 }                               *)
(* with the label table and the pending return-jump target re-expressed in *)
(* block indices, stacks restored from their decimal text, and a run-time  *)
(* prelude for pop / push (line-wise stdin refill, exit on pop from 1/2,   *)
(* NaN rule, output encoding with an abnormal stop on a non-scalar).       *)
(*                                                                         *)
(* BlockMachine is that program; CompiledRun composes it with HyOptimize's *)
(* pre-execution exactly as src/app/build.rs does.  MC_HyCompile checks it *)
(* observably equivalent to HyMachine.  Dispatch(n) transcribes the stack  *)
(* algorithm that prints the nested `if state < k` tree.                   *)
(***************************************************************************)
EXTENDS HyOptimize

\* ------------------------------------------------------------------ block layout
HasArea(c) == c.a # Nil
\* layout of `all` = pre \o residual, k = Len(pre): acc = [b: index of the current block (0-based),
\* open: current block non-empty, idx: block index of every command so far]
Layout(all, k) ==
  LET go(acc, i) ==
        LET c == all[i]
            fresh == (HasArea(c) /\ acc.open) \/ (i = k + 1 /\ acc.open)   \* a new block starts here
            b == IF fresh THEN acc.b + 1 ELSE acc.b
        IN IF HasArea(c) THEN [b |-> b + 1, open |-> FALSE, idx |-> Append(acc.idx, b)]   \* and ends after it
           ELSE [b |-> b, open |-> TRUE, idx |-> Append(acc.idx, b)]
  IN FoldLeft(go, [b |-> 0, open |-> FALSE, idx |-> <<>>], [i \in 1 .. Len(all) |-> i])
BlockIdx(all, k) == Layout(all, k).idx                       \* command position (1-based) -> block index (0-based)
BlockCount(all, k) == LET L == Layout(all, k) IN IF L.open THEN L.b + 1 ELSE L.b
\* the block the residual part starts in
StartBlock(all, k) == IF k = Len(all) THEN BlockCount(all, k) ELSE BlockIdx(all, k)[k + 1]
CmdsOfBlock(all, k, b) == SelectSeq([i \in 1 .. Len(all) |-> i], LAMBDA i : BlockIdx(all, k)[i] = b)

\* every area-carrying command is alone in its block
AreaAlone(all, k) ==
  \A i \in 1 .. Len(all) : HasArea(all[i]) =>
     \A j \in 1 .. Len(all) : (j # i => BlockIdx(all, k)[j] # BlockIdx(all, k)[i])

\* ------------------------------------------------------------------ the block machine
\* state: a HyMachine state whose pc, labels and last are BLOCK indices
BStep(T, all, k) ==
  LET cmds == CmdsOfBlock(all, k, T.pc)
      \* run the commands of the block in order; only the last can carry an area
      go(acc, j) ==
        IF acc.S.status # "run" \/ acc.jumped THEN acc
        ELSE LET c == all[cmds[j]]
                 S1 == Exec(acc.S, c)
                 ar == EvalArea(S1, c.a, AreaCount(c))
             IN IF ar[1].status # "run" THEN [S |-> ar[1], jumped |-> FALSE]
                ELSE LET U == Jump(ar[1], T.pc, AreaCount(c), ar[2])       \* block-indexed labels / last
                     IN [S |-> U, jumped |-> U.pc # T.pc + 1]
      r == FoldLeft(go, [S |-> T, jumped |-> FALSE], [j \in 1 .. Len(cmds) |-> j])
  IN IF r.S.status # "run" THEN r.S
     ELSE IF r.jumped THEN r.S ELSE [r.S EXCEPT !.pc = T.pc + 1]

BRunning(T, all, k) == T.status = "run" /\ T.pc < BlockCount(all, k)
BRunFor(T, all, k, n) ==
  FoldLeft(LAMBDA acc, i : IF BRunning(acc, all, k) THEN BStep(acc, all, k) ELSE acc, T, [i \in 1 .. n |-> i])
BEnding(T, all, k) == IF T.status = "run" THEN (IF T.pc >= BlockCount(all, k) THEN "end" ELSE "running") ELSE T.status

\* ------------------------------------------------------------------ what build.rs emits
\* pre-state handed over by the optimiser -> initial state of the emitted program:
\* stacks travel as decimal text, labels and the pending return jump as block indices
Restore(S, all, k) ==
  LET idx == BlockIdx(all, k) IN
  [S EXCEPT !.pc = StartBlock(all, k),
            !.st = [i \in DOMAIN S.st |-> [j \in DOMAIN S.st[i] |-> RFromText(RToText(S.st[i][j]))]],
            !.labels = [id \in DOMAIN S.labels |-> idx[S.labels[id] + 1]],
            !.last = IF S.last = NoLast THEN NoLast ELSE idx[S.last + 1]]

\* compile at `level` and run the emitted program on `input` for at most n block steps
CompiledRun(prog, input, level, n) ==
  IF level = 0 THEN BRunFor(Restore(InitState(input), prog, 0), prog, 0, n)
  ELSE LET RP == Renumber(prog) IN
       IF level = 1 THEN BRunFor(Restore(InitState(input), RP, 0), RP, 0, n)
       ELSE LET p == PreExec(RP, InitState(input)) IN
            IF p.S.status # "run" THEN p.S                   \* the error is raised while building
            ELSE BRunFor(Restore(p.S, RP, p.k), RP, p.k, n)

CompiledEquiv(R0, prog, T, all, k) ==
  LET e0 == Ending(R0, prog)  e1 == BEnding(T, all, k) IN
  IF e0 = "unspec" \/ e1 = "unspec" THEN TRUE
  ELSE IF e0 = "running" \/ e1 = "running" THEN PrefixCompat(R0.out, T.out) /\ PrefixCompat(R0.err, T.err)
  ELSE IF e0 = "encerr" THEN e1 = "encerr" /\ IsPrefix(T.out, R0.out)
  ELSE e1 = e0 /\ T.out = R0.out /\ T.err = R0.err

\* ------------------------------------------------------------------ the dispatch tree
\* Transcription of the stack algorithm in build_source that prints, for n blocks,
\*   if state < k { ... } else { ... }   nests.  Tokens: <<"if", k>>, <<"blk", i>>, <<"else">>, <<"end">>.
DispatchTokens(n) ==
  LET \* acc = [stack: sequence of <<size, flag>>, out: tokens]
      open(acc, i) ==
        \* while stack.last.size > 1: push (size/2, false), emit if state < size/2 + i
        LET f(a, x) == IF a.stack[Len(a.stack)][1] > 1
                       THEN LET h == a.stack[Len(a.stack)][1] \div 2 IN
                            [stack |-> Append(a.stack, <<h, FALSE>>), out |-> Append(a.out, <<"if", h + i>>)]
                       ELSE a
        IN FoldLeft(f, acc, [x \in 1 .. 8 |-> x])                        \* 2^8 > any n used here
      close(acc) ==
        LET f(a, x) == IF Len(a.stack) > 1 /\ a.stack[Len(a.stack)][2]
                       THEN [stack |-> SubSeq(a.stack, 1, Len(a.stack) - 1), out |-> Append(a.out, <<"end">>)]
                       ELSE a
        IN FoldLeft(f, acc, [x \in 1 .. 8 |-> x])
      step(acc, i1) ==
        LET i == i1 - 1
            a1 == open(acc, i)
            a2 == [a1 EXCEPT !.out = Append(@, <<"blk", i>>)]
            a3 == close(a2)
        IN IF i # n - 1
           THEN LET lastSize == a3.stack[Len(a3.stack)][1]
                    rest == SubSeq(a3.stack, 1, Len(a3.stack) - 1)
                IN [stack |-> Append(rest, <<rest[Len(rest)][1] - lastSize, TRUE>>), out |-> Append(a3.out, <<"else">>)]
           ELSE a3
  IN FoldLeft(step, [stack |-> << <<n, FALSE>> >>, out |-> <<>>], [i \in 1 .. n |-> i]).out

\* which block do the tokens lead to for a given state value?  Walk them like the compiled code would.
\* pos: token position; returns the block reached
RECURSIVE SkipBranch(_,_,_)
\* skip a whole `if ... else ... end` or single block starting at p; returns the position after it
SkipBranch(toks, p, depth) ==
  IF toks[p][1] = "blk" /\ depth = 0 THEN p + 1
  ELSE IF toks[p][1] = "if" THEN SkipBranch(toks, p + 1, depth + 1)
  ELSE IF toks[p][1] = "end" THEN (IF depth = 1 THEN p + 1 ELSE SkipBranch(toks, p + 1, depth - 1))
  ELSE SkipBranch(toks, p + 1, depth)
RECURSIVE Descend(_,_,_)
Descend(toks, p, s) ==
  IF toks[p][1] = "blk" THEN toks[p][2]
  ELSE \* "if k": then-branch follows; else-branch after the matching "else"
       IF s < toks[p][2] THEN Descend(toks, p + 1, s)
       ELSE LET q == SkipBranch(toks, p + 1, 0) IN Descend(toks, q + 1, s)     \* q is the "else"
DispatchCorrect(n) == \A s \in 0 .. n - 1 : Descend(DispatchTokens(n), 1, s) = s
=============================================================================
