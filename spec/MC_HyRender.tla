---------------------------- MODULE MC_HyRender ----------------------------
(***************************************************************************)
(* (M) For every list of up to MaxCmds commands from a finite family and   *)
(* every rendering with ignorable characters: Commands(Render(c)) = c.     *)
(* (R) each rendering is printed with its commands and replayed through    *)
(* the real parser.                                                        *)
(***************************************************************************)
EXTENDS HyRender, TLC, Json
CONSTANTS MaxCmds, Kinds, Hs, Ds, AreaToks, DumpOn

\* grammar-shaped area trees: those AreaTree builds from short token strings
RECURSIVE TokStrings(_)
TokStrings(n) == IF n = 0 THEN {<<>>} ELSE TokStrings(n-1) \cup {Append(s, t) : s \in TokStrings(n-1), t \in {63, 33, 9829, 128149, 9825}}
Areas == {AreaTree(s) : s \in TokStrings(AreaToks)}
CoresSet == {[k |-> k, h |-> h, d |-> d, a |-> a] : k \in Kinds, h \in Hs, d \in Ds, a \in Areas}

\* text before the first command: anything that does not start a command
Leads == IF Rich THEN {<<>>, <<63, 9829>>, <<33>>, <<46, 8230>>, <<50633>>, <<44032, 32>>, <<10, 120>>} ELSE {<<>>, <<63, 9829>>}
\* between commands: whitespace, foreign characters, other Hangul, end syllables
Junks == IF Rich THEN {<<>>, <<32>>, <<10>>, <<120>>, <<44032>>, <<50521>>} ELSE {<<>>, <<10>>, <<50521>>}
\* at the very end a start syllable without a matching end syllable may dangle
Trails == IF Rich THEN {<<>>, <<54784>>, <<55120, 44032>>} ELSE {<<>>, <<54784>>}

VARIABLES intended, text, done
vars == <<intended, text, done>>
Init == intended = <<>> /\ done = FALSE /\ text \in Leads
AddCmd == /\ ~done /\ Len(intended) < MaxCmds
          /\ \E c \in CoresSet : \E r \in Renderings(c) : \E j \in Junks :
               /\ text' = text \o r \o j
               /\ intended' = Append(intended, c)
          /\ UNCHANGED done
Finish == /\ ~done /\ done' = TRUE
          /\ \E t \in Trails : text' = text \o t
          /\ UNCHANGED intended
Next == AddCmd \/ Finish
Spec == Init /\ [][Next]_vars

RoundTrip == Cores(Commands(text)) = intended
Dump == (DumpOn /\ done) => PrintT(<<"REPLAY", ToJson([t |-> text, c |-> Flats(Commands(text))])>>)
=============================================================================
