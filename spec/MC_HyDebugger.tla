---------------------------- MODULE MC_HyDebugger ----------------------------
(***************************************************************************)
(* (M) for C11: every sequence of up to MaxScript debugger commands on a   *)
(* family of input-free programs.  Invariants: the history is coherent     *)
(* (previous restores exactly, the displayed state is the true state),     *)
(* `run` stops at the first break-pointed command, every character is      *)
(* shown exactly once in order, the break-point listing is always defined  *)
(* (NeverStuck).  (R) every completed session is printed and replayed      *)
(* through the real `hyeong debug`.                                        *)
(***************************************************************************)
EXTENDS HyDebugger, HyGrammar, TLC, Json
CONSTANTS MaxScript, DumpOn, ProgSel

H(t) == <<"h", t>>
Cm(k, h, d, a) == [k |-> k, h |-> h, d |-> d, a |-> a]
Programs ==
  << \* 1: straight line, output on some steps only:  A . B
     << Cm(0,65,1,Nil), Cm(1,1,1,Nil), Cm(0,1,1,Nil), Cm(0,66,1,Nil), Cm(1,1,1,Nil) >>,
     \* 2: a loop that revisits a break-pointed index and prints on each round (examples/1_to_8)
     << Cm(0,1,0,Nil), Cm(3,1,8,H(4)), Cm(3,1,4,Nil), Cm(0,1,1,Nil), Cm(1,2,3,Nil), Cm(3,1,1,Nil), Cm(5,1,3,Nil),
        Cm(3,2,4,<<"!", Nil, H(4)>>) >>,
     \* 3: program-requested exit through stack 1 with text pending
     << Cm(0,67,1,Nil), Cm(1,1,1,Nil), Cm(0,68,1,Nil), Cm(1,1,2,Nil), Cm(5,1,1,Nil), Cm(1,1,3,Nil), Cm(0,1,1,Nil) >>,
     \* 4: exit through stack 2 inside an area evaluation
     << Cm(0,69,1,Nil), Cm(1,1,1,Nil), Cm(5,1,2,<<"?", H(2), Nil>>), Cm(0,1,1,Nil) >>,
     \* 5: fractions, negatives and NaN on the stacks; stderr output
     << Cm(0,1,3,Nil), Cm(4,1,4,Nil), Cm(0,1,2,Nil), Cm(3,1,5,Nil), Cm(1,3,6,Nil), Cm(0,70,1,Nil), Cm(1,1,2,Nil) >>,
     \* 6: a single command
     << Cm(0,1,1,Nil) >>,
     \* 7: a loop whose back edge leads to the very first command (history non-empty at index 0)
     << Cm(0,1,3,H(5)), Cm(1,1,3,H(5)) >>,
     \* 8: return jump to the first command, output on the way
     << Cm(0,71,1,H(2)), Cm(1,1,1,Nil), Cm(0,72,1,H(2)), Cm(1,1,1,H(13)) >> >>

DCmds == {<<"n">>, <<"p">>, <<"r">>, <<"s">>, <<"bl">>, <<"h">>, <<"x">>, <<"">>}
BreakArgs(prog) == {0, 1, 2, Len(prog) - 1, Len(prog), Len(prog) + 1}

VARIABLES pi, D, script
vars == <<pi, D, script>>
prog == Programs[pi]
Init == pi \in ProgSel /\ D = DbgStart(<<>>, Programs[pi]) /\ script = <<>>
Do(c) == /\ D.alive = "prompt" /\ Len(script) < MaxScript
         /\ D' = DbgStep(D, c, prog) /\ script' = Append(script, c) /\ UNCHANGED pi
Eof == /\ D.alive = "prompt" /\ D' = CmdEof(D) /\ UNCHANGED <<pi, script>>
Next == (\E c \in DCmds : Do(c)) \/ (\E n \in BreakArgs(prog) : n >= 0 /\ Do(<<"b", n>>)) \/ Eof
Spec == Init /\ [][Next]_vars

Coherent == HistCoherent(D, <<>>, prog)
NeverStuck == BreakListDefined(D, prog)
\* at the prompt after a `run`, the current command carries a breakpoint and none of the commands
\* executed since the run's first step did
RunStopsAtFirstBreak ==
  [][(D.alive = "prompt" /\ script' # script /\ script'[Len(script')] = <<"r">> /\ D'.alive = "prompt") =>
        /\ Top(D').pc \in D'.bps
        /\ \A i \in (Len(D.hist) + 1) .. (Len(D'.hist) - 1) : D'.hist[i].pc \notin D.bps]_vars
\* ledger: the concatenation of the shown chunks equals the concatenation, in order, of what the executed
\* steps wrote.  Since the history is coherent and `previous` only pops, it is enough that every action
\* appends exactly the text between the states it left and reached (checked per action):
RECURSIVE CatChunks(_,_)
CatChunks(evs, tag) == IF evs = <<>> THEN <<>>
                       ELSE (IF Head(evs)[1] = tag THEN Head(evs)[2] ELSE <<>>) \o CatChunks(Tail(evs), tag)
NewEvents == SubSeq(D'.shown, Len(D.shown) + 1, Len(D'.shown))
ExactlyOnce ==
  [][(script' # script /\ script'[Len(script')][1] \in {"n", "r"} /\ D'.alive \in {"prompt", "ended"}) =>
        /\ CatChunks(NewEvents, "out") = Delta(Top(D).out, Top(D').out)
        /\ CatChunks(NewEvents, "err") = Delta(Top(D).err, Top(D').err)]_vars

FlatCmd(c) == [k |-> c.k, h |-> c.h, d |-> c.d, ap |-> Prefix(c.a)]
Dump == (DumpOn /\ D.alive # "prompt") =>
          PrintT(<<"REPLAY", ToJson([prog |-> [i \in DOMAIN prog |-> FlatCmd(prog[i])], script |-> script])>>)
=============================================================================
