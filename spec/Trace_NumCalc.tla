--------------------------- MODULE Trace_NumCalc ---------------------------
(***************************************************************************)
(* Trace validation of recorded BigNum / Num histories against NumCalc.    *)
(* The harness (hv-num) records one ndjson event per operation it applied  *)
(* to the real code together with the internal representation of every     *)
(* result (hook verif_parts).  This module re-computes each result with    *)
(* HyNumbers at B = 256 and compares; it adds only the cursor `l`, the     *)
(* mismatch counter and the binding of logged fields to registers.         *)
(*                                                                         *)
(* On a disagreement it takes an explicit Mismatch step (prints the event  *)
(* index, what was recorded and what the specification expects) and keeps  *)
(* consuming, so one rejection does not leave the rest unexamined.         *)
(***************************************************************************)
EXTENDS NumCalc, TLC, Json, IOUtils

Rec == ndJsonDeserialize(IOEnv.TRACE)

VARIABLES l, ri, rr, bad
vars == <<l, ri, rr, bad>>

--------------------------------------------------------------------------
\* projection of recorded representations (B = 256: one limb = 4 digits)
LimbsOf(mag) == IF mag = <<>> THEN 1 ELSE (Len(mag) + 3) \div 4
JI(j) == [neg |-> j.neg, mag |-> j.mag]
ReprOKI(j) == IsCanonicalInt(JI(j)) /\ j.limbs = LimbsOf(j.mag)
JR(j) == IF j.down.mag = <<>> THEN NaN ELSE R(JI(j.up), JI(j.down))
ReprOKR(j) == ReprOKI(j.up) /\ ReprOKI(j.down) /\ IsCanonicalRat(JR(j))
\* a source operand given as raw digits and a sign
Src(j) == I(j.neg, NormM(j.mag))

--------------------------------------------------------------------------
\* what the specification expects for an event, given the registers

ExpInt(e) ==
  CASE e.ev = "iload" -> Src(e.src)
    [] e.ev = "inew"  -> Src(e.src)
    [] e.ev = "iop2"  -> IntResult(e.op, ri[e.x], ri[e.y])
    [] e.ev = "iop1"  -> IntResult(e.op, ri[e.x], IZero)
    [] e.ev = "ifromtext" -> ri[e.x]
    [] e.ev = "igcd"  -> I(FALSE, IGcdMag(ri[e.x], ri[e.y]))   \* magnitude is what is claimed

ExpRat(e) ==
  CASE e.ev = "rload" -> RFromInts(Src(e.up), Src(e.down))
    [] e.ev = "rnew"  -> RFromInts(Src(e.n), Src(e.m))
    [] e.ev = "rfromint" -> RFromI(Src(e.n))
    [] e.ev = "rop2"  -> RatResult(e.op, rr[e.x], rr[e.y])
    [] e.ev = "rop1"  -> RatResult(e.op, rr[e.x], RZero)
    [] e.ev = "rfromtext" -> rr[e.x]

IntEvents == {"iload", "inew", "iop2", "iop1", "ifromtext", "igcd"}
RatEvents == {"rload", "rnew", "rfromint", "rop2", "rop1", "rfromtext"}

Low32(a) == [i \in 1 .. 4 |-> Dig(a.mag, i)]

\* is the event one the properties make a claim about?
InClaim(e) ==
  CASE e.ev = "iop2" -> (NeedsNonZeroB(e.op) => ~IIsZero(ri[e.y]))
    [] e.ev = "rload" -> ~(IIsZero(Src(e.up)) /\ IIsZero(Src(e.down)))
    [] e.ev = "rnew" -> ~(IIsZero(Src(e.n)) /\ IIsZero(Src(e.m)))
    [] OTHER -> TRUE

\* Witness-based judgements.  Quotients, remainders, gcds and reduced fractions are
\* uniquely determined by postconditions that need only + - * <; the recorded witnesses
\* (computed by the harness with the implementation's own operators - sound whoever
\* computes them) make checking them cheap.  When a witness does not check out the
\* specification falls back to computing the value itself, so a wrong witness alone
\* never produces a mismatch.
RatW(e) == IF "w" \in DOMAIN e THEN e.w ELSE [x |-> [neg |-> FALSE, mag |-> <<>>], y |-> [neg |-> FALSE, mag |-> <<>>]]
CanonOK(j, w) ==
  /\ ReprOKI(j.up) /\ ReprOKI(j.down)
  /\ (IsCanonicalRatW(JR(j), JI(w.x), JI(w.y)) \/ IsCanonicalRat(JR(j)))

\* recorded rational r is the canonical form of n/d (d # 0) or NaN when d = 0
RatIs(j, w, n, d) ==
  IF IIsZero(d) THEN IsNaN(JR(j)) /\ ReprOKI(j.down)
  ELSE IsRatOf(JR(j), n, d) /\ CanonOK(j, w)

OK(e) ==
  CASE e.ev = "reset" -> TRUE
    [] e.ev = "panic" -> FALSE                              \* the real code crashed
    [] e.ev = "igcd" ->
         /\ ReprOKI(e.r)
         /\ \/ (IIsZero(ri[e.x]) /\ IIsZero(ri[e.y]) /\ JI(e.r).mag = <<>>)
            \/ ("ca" \in DOMAIN e /\
                IsGcdMagnitude(ri[e.x], ri[e.y], JI(e.r).mag, JI(e.ca), JI(e.cb), JI(e.wx), JI(e.wy)))
            \/ JI(e.r).mag = IGcdMag(ri[e.x], ri[e.y])
    [] e.ev = "iop2" /\ e.op = "div" ->
         /\ ReprOKI(e.r) /\ e.rip = e.r
         /\ IsTruncDiv(ri[e.x], ri[e.y], JI(e.r), ISub(ri[e.x], IMul(JI(e.r), ri[e.y])))
    [] e.ev = "iop2" /\ e.op = "rem" ->
         /\ ReprOKI(e.r) /\ e.rip = e.r
         /\ \/ IsTruncDiv(ri[e.x], ri[e.y], JI(e.q), JI(e.r))
            \/ JI(e.r) = IRem(ri[e.x], ri[e.y])
    [] e.ev \in IntEvents ->
         /\ ReprOKI(e.r) /\ JI(e.r) = ExpInt(e)
         /\ ("rip" \in DOMAIN e => e.rip = e.r)             \* in-place = pure
    [] e.ev = "rload" -> RatIs(e.r, RatW(e), Src(e.up), Src(e.down))
    [] e.ev = "rnew"  -> RatIs(e.r, RatW(e), Src(e.n), Src(e.m))
    [] e.ev = "rop2"  ->
         /\ JR(e.rip) = JR(e.r) /\ e.rip = e.r
         /\ IF IsNaN(rr[e.x]) \/ IsNaN(rr[e.y]) THEN IsNaN(JR(e.r)) /\ ReprOKI(e.r.down)
            ELSE RatIs(e.r, RatW(e), RatNum(e.op, rr[e.x], rr[e.y]), RatDen(e.op, rr[e.x], rr[e.y]))
    [] e.ev \in RatEvents ->
         \* rfromint, rop1 (neg, flip, copy), rfromtext: no reduction involved
         /\ ReprOKI(e.r.up) /\ ReprOKI(e.r.down) /\ JR(e.r) = ExpRat(e)
         /\ ("rip" \in DOMAIN e => JR(e.rip) = JR(e.r) /\ ReprOKI(e.rip.up) /\ ReprOKI(e.rip.down))
    [] e.ev = "icmp" ->
         /\ e.v = IntCmpText(ri[e.x], ri[e.y])
         /\ e.eq = (ri[e.x] = ri[e.y])
    [] e.ev = "itext" ->
         /\ IsConventional(e.t, e.base)
         /\ ITextValue(e.t, e.base) = ri[e.x]
    [] e.ev = "iprobe" ->
         /\ e.iszero = IIsZero(ri[e.x])
         /\ e.ispos = ~ri[e.x].neg
         /\ e.low = Low32(ri[e.x])
    [] e.ev = "rcmp" ->
         /\ e.v = RCmp(rr[e.x], rr[e.y])
         \* structural equality = numeric equality (claimed for numbers, not NaN)
         /\ (e.v # "un" => e.eq = (e.v = "eq"))
    [] e.ev = "rprobe" ->
         /\ e.isnan = IsNaN(rr[e.x])
         /\ e.ispos = RIsNonNeg(rr[e.x])
         \* floor f of a non-negative value by postcondition: f*den <= num < (f+1)*den
         /\ (RIsNonNeg(rr[e.x]) =>
               /\ ReprOKI(e.floor) /\ ~JI(e.floor).neg
               /\ ICmp(IMul(JI(e.floor), rr[e.x].den), rr[e.x].num) <= 0
               /\ ICmp(rr[e.x].num, IMul(IAdd(JI(e.floor), IOne), rr[e.x].den)) < 0)
    [] e.ev = "rtext" ->
         \* the decimal rendering, judged by what it denotes (no division needed)
         IF IsNaN(rr[e.x]) THEN e.t = NaNText
         ELSE LET k == IndexOf(e.t, Slash, 1)
                  nt == IF k = 0 THEN e.t ELSE SubSeq(e.t, 1, k-1)
              IN /\ IsConventional(nt, 10) /\ ITextValue(nt, 10) = rr[e.x].num
                 /\ (k = 0) = (rr[e.x].den = IOne)
                 /\ (k # 0 => LET dt == SubSeq(e.t, k+1, Len(e.t))
                               IN IsConventional(dt, 10) /\ ITextValue(dt, 10) = rr[e.x].den)

Expected(e) ==
  CASE e.ev = "icmp" -> [v |-> IntCmpText(ri[e.x], ri[e.y]), eq |-> ri[e.x] = ri[e.y]]
    [] e.ev = "rcmp" -> [v |-> RCmp(rr[e.x], rr[e.y])]
    [] e.ev \in {"iload", "inew", "iop1", "ifromtext"} -> ExpInt(e)
    [] e.ev = "iop2" /\ e.op \in {"add", "sub", "mul"} -> ExpInt(e)
    [] e.ev = "rprobe" -> [isnan |-> IsNaN(rr[e.x]), ispos |-> RIsNonNeg(rr[e.x])]
    [] OTHER -> "recompute with --replay"

\* registers follow the implementation when its result is representable,
\* so that one wrong result is reported once and not at every later event
NextRI(e) ==
  IF e.ev = "reset" THEN [k \in Regs |-> IZero]
  ELSE IF e.ev \in IntEvents
       THEN [ri EXCEPT ![e.d] = IF ReprOKI(e.r) THEN JI(e.r) ELSE ExpInt(e)]
       ELSE ri
NextRR(e) ==
  IF e.ev = "reset" THEN [k \in Regs |-> RZero]
  ELSE IF e.ev \in RatEvents
       THEN [rr EXCEPT ![e.d] = IF ReprOKI(e.r.up) /\ ReprOKI(e.r.down) /\ (IsNaN(JR(e.r)) \/ ~JR(e.r).den.neg) THEN JR(e.r) ELSE ExpRat(e)]
       ELSE rr

--------------------------------------------------------------------------
Init == l = 1 /\ ri = [k \in Regs |-> IZero] /\ rr = [k \in Regs |-> RZero] /\ bad = 0

Match == /\ l <= Len(Rec)
         /\ LET e == Rec[l] IN
            /\ (InClaim(e) => OK(e)) = TRUE        \* `= TRUE`: evaluate as an expression (short-circuit)
            /\ ri' = (IF InClaim(e) THEN NextRI(e) ELSE ri)
            /\ rr' = (IF InClaim(e) THEN NextRR(e) ELSE rr)
         /\ l' = l + 1 /\ UNCHANGED bad

Mismatch == /\ l <= Len(Rec)
            /\ LET e == Rec[l] IN
               /\ (InClaim(e) /\ ~OK(e)) = TRUE
               /\ PrintT(<<"MISMATCH", l, ToJson(e), ToJson(Expected(e))>>)
               /\ ri' = NextRI(e) /\ rr' = NextRR(e)
            /\ l' = l + 1 /\ bad' = bad + 1

Next == Match \/ Mismatch
Spec == Init /\ [][Next]_vars

\* the representation invariant of C05 / C06 as a state invariant of the history
AllCanonical == AllCanonicalRegs(ri, rr)

Accepted ==
  /\ PrintT(<<"TRACE-END", TLCGet("stats").diameter - 1, Len(Rec)>>)
  /\ TLCGet("stats").diameter - 1 = Len(Rec)
=============================================================================
