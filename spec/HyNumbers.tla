---------------------------- MODULE HyNumbers ----------------------------
(***************************************************************************)
(* Unbounded integers and rationals for the Hyeo-ung specification suite.  *)
(*                                                                         *)
(* TLC's integers are 32 bit and overflow is an error, so the suite        *)
(* carries its own arithmetic: an integer is a sign and a little-endian    *)
(* sequence of digits in base B.  This module is the "mathematical         *)
(* integers / rationals" oracle for src/number/big_number.rs and num.rs    *)
(* (properties C05, C06, C07, C09) and the value domain of HyMachine.      *)
(*                                                                         *)
(* MC_HyNumbers checks every operator against TLC's native integers for    *)
(* small B, which is what entitles it to be used at B = 256 (one 32-bit    *)
(* limb of the implementation = four digits) where only the digit range    *)
(* changes.                                                                *)
(***************************************************************************)
EXTENDS Integers, Sequences

CONSTANT B            \* digit base; 2 <= B and (B-1)*(B-1)+2*B fits a TLC int

--------------------------------------------------------------------------
(* Magnitudes: sequences over 0..B-1, least significant digit first.      *)
(* Canonical: no most-significant zero digit; zero is the empty sequence. *)

MaxOf(a, b) == IF a > b THEN a ELSE b

IsMag(m) == \A i \in DOMAIN m : m[i] \in 0 .. B-1
IsCanonicalMag(m) == IsMag(m) /\ (m # <<>> => m[Len(m)] # 0)

RECURSIVE NormM(_)
NormM(m) == IF m = <<>> THEN <<>>
            ELSE IF m[Len(m)] = 0 THEN NormM(SubSeq(m, 1, Len(m)-1)) ELSE m

Dig(m, i) == IF i <= Len(m) THEN m[i] ELSE 0

RECURSIVE NatM(_)
NatM(n) == IF n = 0 THEN <<>> ELSE <<n % B>> \o NatM(n \div B)

RECURSIVE AddMr(_,_,_,_)
AddMr(a, b, i, c) ==
  IF i > MaxOf(Len(a), Len(b)) THEN (IF c = 0 THEN <<>> ELSE <<c>>)
  ELSE LET s == Dig(a,i) + Dig(b,i) + c
       IN <<s % B>> \o AddMr(a, b, i+1, s \div B)
AddM(a, b) == AddMr(a, b, 1, 0)

RECURSIVE CmpMr(_,_,_)
CmpMr(a, b, i) == IF i = 0 THEN 0
                  ELSE IF a[i] < b[i] THEN -1
                  ELSE IF a[i] > b[i] THEN 1 ELSE CmpMr(a, b, i-1)
\* three-way comparison of canonical magnitudes
CmpM(a, b) == IF Len(a) < Len(b) THEN -1
              ELSE IF Len(a) > Len(b) THEN 1 ELSE CmpMr(a, b, Len(a))

RECURSIVE SubMr(_,_,_,_)
SubMr(a, b, i, c) ==
  IF i > Len(a) THEN <<>>
  ELSE LET s == a[i] - Dig(b,i) - c
       IN IF s < 0 THEN <<s + B>> \o SubMr(a, b, i+1, 1)
                   ELSE <<s>> \o SubMr(a, b, i+1, 0)
\* a - b for a >= b
SubM(a, b) == NormM(SubMr(a, b, 1, 0))

RECURSIVE MulDr(_,_,_,_)
MulDr(a, d, i, c) ==
  IF i > Len(a) THEN NatM(c)
  ELSE LET s == a[i]*d + c IN <<s % B>> \o MulDr(a, d, i+1, s \div B)
\* magnitude times a small native integer d >= 0 ((B-1)*d + d fits an int)
MulD(a, d) == IF d = 0 \/ a = <<>> THEN <<>> ELSE MulDr(a, d, 1, 0)

RECURSIVE MulMr(_,_,_)
MulMr(a, b, j) ==
  IF j > Len(b) THEN <<>>
  ELSE LET rest == MulMr(a, b, j+1)
           sh   == IF rest = <<>> THEN <<>> ELSE <<0>> \o rest
       IN AddM(MulD(a, b[j]), sh)
MulM(a, b) == IF a = <<>> \/ b = <<>> THEN <<>> ELSE NormM(MulMr(a, b, 1))

\* largest d in lo..hi with d*b <= r  (binary search; b # 0)
RECURSIVE QDig(_,_,_,_)
QDig(r, b, lo, hi) ==
  IF lo = hi THEN lo
  ELSE LET mid == (lo + hi + 1) \div 2
       IN IF CmpM(MulD(b, mid), r) <= 0 THEN QDig(r, b, mid, hi)
                                        ELSE QDig(r, b, lo, mid-1)

\* schoolbook long division, most significant digit first; <<quotient, remainder>>
RECURSIVE DivMr(_,_,_,_)
DivMr(a, b, i, rem) ==
  IF i = 0 THEN << <<>>, rem >>
  ELSE LET r1   == NormM(<<a[i]>> \o rem)
           d    == IF CmpM(r1, b) < 0 THEN 0 ELSE QDig(r1, b, 1, B-1)   \* (most digits of a Euclid round)
           r2   == SubM(r1, MulD(b, d))
           rest == DivMr(a, b, i-1, r2)
       IN << rest[1] \o <<d>>, rest[2] >>
DivModM(a, b) == LET r == DivMr(a, b, Len(a), <<>>) IN << NormM(r[1]), r[2] >>

\* Euclid, as a recursive function: TLC evaluates the argument of a function application once, before
\* the call (the arguments of a RECURSIVE operator are passed unevaluated; measured 2-3 times slower here)
GcdF[p \in Seq(Nat) \X Seq(Nat)] == IF p[2] = <<>> THEN p[1] ELSE GcdF[<<p[2], DivModM(p[1], p[2])[2]>>]
GcdM(a, b) == GcdF[<<a, b>>]

\* division of a magnitude by a small positive native integer d (d*B fits an int):
\* <<quotient, remainder as native int>>
RECURSIVE DivSmallR(_,_,_,_)
DivSmallR(a, d, i, rem) ==
  IF i = 0 THEN << <<>>, rem >>
  ELSE LET cur  == rem * B + a[i]
           rest == DivSmallR(a, d, i-1, cur % d)
       IN << rest[1] \o <<cur \div d>>, rest[2] >>
DivSmall(a, d) == LET r == DivSmallR(a, d, Len(a), 0) IN << NormM(r[1]), r[2] >>

--------------------------------------------------------------------------
(* Signed integers: [neg |-> BOOLEAN, mag |-> canonical magnitude];       *)
(* zero is never negative.                                                *)

I(neg, mag) == [neg |-> neg /\ mag # <<>>, mag |-> mag]
IsCanonicalInt(a) == a.neg \in BOOLEAN /\ IsCanonicalMag(a.mag) /\ (a.mag = <<>> => ~a.neg)

IZero == I(FALSE, <<>>)
IOne  == I(FALSE, <<1>>)
IFromInt(n) == IF n < 0 THEN I(TRUE, NatM(-n)) ELSE I(FALSE, NatM(n))
IIsZero(a) == a.mag = <<>>
INeg(a) == I(~a.neg, a.mag)
IAbs(a) == I(FALSE, a.mag)
IAdd(a, b) ==
  IF a.neg = b.neg THEN I(a.neg, AddM(a.mag, b.mag))
  ELSE LET c == CmpM(a.mag, b.mag)
       IN IF c >= 0 THEN I(a.neg, SubM(a.mag, b.mag))
                    ELSE I(b.neg, SubM(b.mag, a.mag))
ISub(a, b) == IAdd(a, INeg(b))
IMul(a, b) == I(a.neg # b.neg, MulM(a.mag, b.mag))
\* -1, 0, 1
ICmp(a, b) == IF a.neg /\ ~b.neg THEN -1
              ELSE IF ~a.neg /\ b.neg THEN 1
              ELSE IF a.neg THEN CmpM(b.mag, a.mag) ELSE CmpM(a.mag, b.mag)
\* truncating division and remainder with the sign of the dividend (b # 0)
IDiv(a, b) == I(a.neg # b.neg, DivModM(a.mag, b.mag)[1])
IRem(a, b) == I(a.neg, DivModM(a.mag, b.mag)[2])
IGcdMag(a, b) == GcdM(a.mag, b.mag)

\* Postconditions that fix the result uniquely using only + - * <
IsTruncDiv(a, b, q, r) ==
  /\ IAdd(IMul(q, b), r) = a
  /\ CmpM(r.mag, b.mag) < 0
  /\ (IIsZero(r) \/ r.neg = a.neg)
\* g is the gcd magnitude of a and b, given cofactors ca = a/g, cb = b/g and
\* Bezout witnesses x, y:  g*ca = |a|, g*cb = |b|, x*ca + y*cb = 1
IsGcdMagnitude(a, b, g, ca, cb, x, y) ==
  /\ MulM(g, ca.mag) = a.mag
  /\ MulM(g, cb.mag) = b.mag
  /\ IAdd(IMul(x, IAbs(ca)), IMul(y, IAbs(cb))) = IOne

--------------------------------------------------------------------------
(* Rationals: NaN or a canonical fraction num/den, den > 0, gcd = 1.      *)

NaN == [nan |-> TRUE]
IsNaN(r) == r.nan
R(n, d) == [nan |-> FALSE, num |-> n, den |-> d]
IsCanonicalRat(r) ==
  IF IsNaN(r) THEN TRUE
  ELSE /\ IsCanonicalInt(r.num) /\ IsCanonicalInt(r.den)
       /\ ~r.den.neg /\ r.den.mag # <<>>
       /\ GcdM(r.num.mag, r.den.mag) = <<1>>
\* the same, with coprimality certified by Bezout witnesses x*|num| + y*den = 1
\* (no division needed to check it)
IsCanonicalRatW(r, x, y) ==
  IF IsNaN(r) THEN TRUE
  ELSE /\ IsCanonicalInt(r.num) /\ IsCanonicalInt(r.den)
       /\ ~r.den.neg /\ r.den.mag # <<>>
       /\ IAdd(IMul(x, IAbs(r.num)), IMul(y, r.den)) = IOne
\* r is a fraction equal to n/d (d # 0, either sign): n/d = r.num/r.den by cross-multiplication.
\* Together with canonicity this fixes r uniquely.
IsRatOf(r, n, d) == ~IsNaN(r) /\ IMul(r.num, d) = IMul(n, r.den)
\* n / d for d # 0 (either sign), reduced
RNorm(n, d) ==
  LET g == GcdM(n.mag, d.mag)
  IN R(I(n.neg # d.neg, DivModM(n.mag, g)[1]), I(FALSE, DivModM(d.mag, g)[1]))
RFromInts(n, d) == IF IIsZero(d) THEN NaN ELSE RNorm(n, d)
RInt(n) == R(IFromInt(n), IOne)
RFromI(i) == R(i, IOne)
RZero == RInt(0)
ROne == RInt(1)
RAdd(a, b) == IF IsNaN(a) \/ IsNaN(b) THEN NaN
              ELSE RNorm(IAdd(IMul(a.num, b.den), IMul(b.num, a.den)), IMul(a.den, b.den))
RMul(a, b) == IF IsNaN(a) \/ IsNaN(b) THEN NaN
              ELSE RNorm(IMul(a.num, b.num), IMul(a.den, b.den))
RNeg(a) == IF IsNaN(a) THEN NaN ELSE R(INeg(a.num), a.den)
RInv(a) == IF IsNaN(a) THEN NaN
           ELSE IF IIsZero(a.num) THEN NaN
           ELSE R(I(a.num.neg, a.den.mag), I(FALSE, a.num.mag))
RIsNonNeg(a) == ~IsNaN(a) /\ ~a.num.neg
RIsInt(a) == ~IsNaN(a) /\ a.den = IOne
\* floor of a non-negative value, as an integer
RFloorNonNeg(a) == IF a.den = IOne THEN a.num ELSE I(FALSE, DivModM(a.num.mag, a.den.mag)[1])
\* "lt" "eq" "gt" "un"
RCmp(a, b) == IF IsNaN(a) \/ IsNaN(b) THEN "un"
              ELSE LET c == ICmp(IMul(a.num, b.den), IMul(b.num, a.den))
                   IN IF c < 0 THEN "lt" ELSE IF c = 0 THEN "eq" ELSE "gt"
REq(a, b) == RCmp(a, b) = "eq"

--------------------------------------------------------------------------
(* Text.  A text is a sequence of Unicode code points.                    *)

Minus == 45
Slash == 47
Zero0 == 48
\* the fixed NaN text "너무 커엇..."
NaNText == <<45320, 47924, 32, 52964, 50631, 46, 46, 46>>

DigitChar(d) == IF d < 10 THEN 48 + d ELSE 55 + d
DigitVal(c) == IF c >= 48 /\ c <= 57 THEN c - 48
               ELSE IF c >= 65 /\ c <= 90 THEN c - 55 ELSE 99

\* optional leading minus (never for zero), digits 0-9A-Z below the base,
\* no leading zero except for "0"
IsConventional(t, base) ==
  /\ t # <<>>
  /\ LET body == IF t[1] = Minus THEN Tail(t) ELSE t
     IN /\ body # <<>>
        /\ \A i \in DOMAIN body : DigitVal(body[i]) < base
        /\ (Len(body) > 1 => body[1] # Zero0)
        /\ (t[1] = Minus => body # <<Zero0>>)

RECURSIVE HornerM(_,_,_,_)
HornerM(body, base, i, acc) ==
  IF i > Len(body) THEN acc
  ELSE HornerM(body, base, i+1, AddM(MulD(acc, base), NatM(DigitVal(body[i]))))
\* the integer a text denotes in a base (base < B)
ITextValue(t, base) ==
  LET neg  == t # <<>> /\ t[1] = Minus
      body == IF neg THEN Tail(t) ELSE t
  IN I(neg, HornerM(body, base, 1, <<>>))

RECURSIVE MagDigits(_,_)
\* digits of a magnitude in a base, most significant first (<<>> for zero)
MagDigits(m, base) ==
  IF m = <<>> THEN <<>>
  ELSE LET qr == DivSmall(m, base) IN MagDigits(qr[1], base) \o <<DigitChar(qr[2])>>
IToText(a, base) ==
  IF IIsZero(a) THEN <<Zero0>>
  ELSE (IF a.neg THEN <<Minus>> ELSE <<>>) \o MagDigits(a.mag, base)
IToDecimal(a) == IToText(a, 10)

\* integers without denominator, fractions as num/den, NaN as the fixed text
RToText(r) == IF IsNaN(r) THEN NaNText
              ELSE IF r.den = IOne THEN IToDecimal(r.num)
              ELSE IToDecimal(r.num) \o <<Slash>> \o IToDecimal(r.den)

RECURSIVE IndexOf(_,_,_)
IndexOf(t, c, i) == IF i > Len(t) THEN 0 ELSE IF t[i] = c THEN i ELSE IndexOf(t, c, i+1)
\* the rational a decimal rendering denotes:  NaN text | [-]digits[/digits]
RFromText(t) ==
  IF t = NaNText THEN NaN
  ELSE LET k == IndexOf(t, Slash, 1)
       IN IF k = 0 THEN RFromI(ITextValue(t, 10))
          ELSE RFromInts(ITextValue(SubSeq(t, 1, k-1), 10),
                         ITextValue(SubSeq(t, k+1, Len(t)), 10))
=============================================================================
