-------------------------- MODULE MC_HyParserSteps --------------------------
(***************************************************************************)
(* The parser machine of HyParser stepped as a TLC state machine: one      *)
(* named action per arm of the `match` in parse.rs, so that `-coverage`    *)
(* reports how often each arm fired over all texts up to MaxLen.  The      *)
(* orchestrator requires every arm to have fired (vacuity) and TLC checks  *)
(* at the end of every text that the stepped machine agrees with the       *)
(* grammar.                                                                *)
(***************************************************************************)
EXTENDS HyParser, TLC
CONSTANTS Alphabet, MaxLen
VARIABLES text, p, i, phase
vars == <<text, p, i, phase>>
Init == text = <<>> /\ p = PInit /\ i = 1 /\ phase = "grow"
Grow == /\ phase = "grow" /\ Len(text) < MaxLen
        /\ \E c \in Alphabet : text' = Append(text, c)
        /\ UNCHANGED <<p, i, phase>>
Start == phase = "grow" /\ phase' = "parse" /\ UNCHANGED <<text, p, i>>
ArmSpaceA == /\ phase = "parse" /\ i <= Len(text) /\ ArmName(p, text, i) = "Space"
             /\ p' = PStep(p, text, i) /\ i' = i + 1 /\ UNCHANGED <<text, phase>>
ArmInsideA == /\ phase = "parse" /\ i <= Len(text) /\ ArmName(p, text, i) = "Inside"
              /\ p' = PStep(p, text, i) /\ i' = i + 1 /\ UNCHANGED <<text, phase>>
ArmCommandStartA == /\ phase = "parse" /\ i <= Len(text) /\ ArmName(p, text, i) = "CommandStart"
                    /\ p' = PStep(p, text, i) /\ i' = i + 1 /\ UNCHANGED <<text, phase>>
ArmStartIgnoredA == /\ phase = "parse" /\ i <= Len(text) /\ ArmName(p, text, i) = "StartIgnored"
                    /\ p' = PStep(p, text, i) /\ i' = i + 1 /\ UNCHANGED <<text, phase>>
ArmDotA == /\ phase = "parse" /\ i <= Len(text) /\ ArmName(p, text, i) = "Dot"
           /\ p' = PStep(p, text, i) /\ i' = i + 1 /\ UNCHANGED <<text, phase>>
ArmQuestionA == /\ phase = "parse" /\ i <= Len(text) /\ ArmName(p, text, i) = "Question"
                /\ p' = PStep(p, text, i) /\ i' = i + 1 /\ UNCHANGED <<text, phase>>
ArmBangA == /\ phase = "parse" /\ i <= Len(text) /\ ArmName(p, text, i) = "Bang"
            /\ p' = PStep(p, text, i) /\ i' = i + 1 /\ UNCHANGED <<text, phase>>
ArmHeartA == /\ phase = "parse" /\ i <= Len(text) /\ ArmName(p, text, i) = "Heart"
             /\ p' = PStep(p, text, i) /\ i' = i + 1 /\ UNCHANGED <<text, phase>>
ArmOtherA == /\ phase = "parse" /\ i <= Len(text) /\ ArmName(p, text, i) = "Other"
             /\ p' = PStep(p, text, i) /\ i' = i + 1 /\ UNCHANGED <<text, phase>>
Next == Grow \/ Start \/ ArmSpaceA \/ ArmInsideA \/ ArmCommandStartA \/ ArmStartIgnoredA \/ ArmDotA
        \/ ArmQuestionA \/ ArmBangA \/ ArmHeartA \/ ArmOtherA
Spec == Init /\ [][Next]_vars
SteppedIsGrammar == (phase = "parse" /\ i = Len(text) + 1) => Flush(p) = Commands(text)
=============================================================================
