-------------------------- MODULE Trace_HyMachine --------------------------
(***************************************************************************)
(* Trace validation against HyMachine (C01, C02, C03, C07 branch clause,   *)
(* C14).  Two kinds of recorded material:                                  *)
(*                                                                         *)
(*  per-command traces (hv-exec steps): `reset` (program, stdin) followed  *)
(*  by one `step` event per executed command with the full projected state *)
(*  (next index, selected stack, every stack, text written so far), and    *)
(*  how the run ended (`end`, `exited` with status and flushed text,       *)
(*  `error`, `cut`, `panic`, `timeout`).  The specification executes the   *)
(*  same command on its own state and compares after every command.        *)
(*                                                                         *)
(*  whole-run observations (hv-exec obs): what the real `hyeong run -O<n>` *)
(*  binary and the compiled programs wrote and how they ended; compared    *)
(*  with the reference run of HyMachine (prefix-compatible when the        *)
(*  reference run is cut by the step bound).                               *)
(*                                                                         *)
(* After a disagreement inside one program the rest of that program is     *)
(* skipped and validation resumes at the next `reset`.                     *)
(***************************************************************************)
EXTENDS HyMachine, TLC, Json, IOUtils, Integers

Rec == ndJsonDeserialize(IOEnv.TRACE)

VARIABLES l, m, prog, mode, bad
vars == <<l, m, prog, mode, bad>>

\* ---- decoding
RECURSIVE FromPrefixR(_,_)
\* <<tree, next index>>
FromPrefixR(ap, i) ==
  IF ap[i] = 0 THEN <<Nil, i + 1>>
  ELSE IF ap[i] \in {63, 33}
       THEN LET lft == FromPrefixR(ap, i + 1)
                rgt == FromPrefixR(ap, lft[2])
            IN << <<IF ap[i] = 63 THEN "?" ELSE "!", lft[1], rgt[1]>>, rgt[2] >>
  ELSE << <<"h", ap[i] - 100>>, i + 1 >>
CmdOf(j) == [k |-> j.k, h |-> j.h, d |-> j.d, a |-> FromPrefixR(j.ap, 1)[1]]
ProgOf(js) == [i \in DOMAIN js |-> CmdOf(js[i])]
\* recorded rational <<up negative, up digits, down negative, down digits>> exactly as stored
ValOf(v) == IF v[4] = <<>> THEN NaN
            ELSE R([neg |-> v[1], mag |-> v[2]], [neg |-> v[3], mag |-> v[4]])
StOf(st) == [i \in {p[1] : p \in {st[x] : x \in DOMAIN st}} |->
               LET p == CHOOSE p \in {st[x] : x \in DOMAIN st} : p[1] = i
               IN [j \in DOMAIN p[2] |-> ValOf(p[2][j])]]

HasSub(t, s) == \E i \in 1 .. (Len(t) - Len(s) + 1) : SubSeq(t, i, i + Len(s) - 1) = s
ErrorTag == <<91, 101, 114, 114, 111, 114, 93>>       \* [error]
PrefixCompat(a, b) == IsPrefix(a, b) \/ IsPrefix(b, a)

\* ---- per-command events
\* (T is the specification's step from m, computed once per event by Step1)
StepOK(e, T) ==
  /\ Running(m, prog) /\ T.status = "run"
  /\ e.pc = m.pc /\ e.next = T.pc /\ e.cur = T.cur
  /\ ("last" \in DOMAIN e => e.last = T.last)     \* the last jump source, where the emitter logs it
  /\ StOf(e.st) = T.st
  /\ e.out = T.out /\ e.err = T.err

EventKind(e, T) ==
  \* "ok" | "bad" | "skip" (nothing claimed: unspecified behaviour or a cut)
  IF e.ev = "step" THEN
       IF ~Running(m, prog) THEN "bad"
       ELSE IF T.status = "unspec" THEN "skip"
       ELSE IF StepOK(e, T) THEN "ok" ELSE "bad"
  ELSE IF e.ev = "end" THEN (IF m.status = "run" /\ m.pc = Len(prog) THEN "ok" ELSE "bad")
  ELSE IF e.ev = "exited" THEN
       IF ~Running(m, prog) THEN "bad"
       ELSE IF T.status = "unspec" THEN "skip"
            ELSE IF /\ T.status = (IF e.code = 0 THEN "exit0" ELSE IF e.code = 1 THEN "exit1" ELSE "none")
                    /\ e.out = T.out /\ e.err = T.err            \* all earlier output delivered
                 THEN "ok" ELSE "bad"
  ELSE IF e.ev = "error" THEN
       IF ~Running(m, prog) THEN "bad"
       ELSE IF T.status = "unspec" THEN "skip" ELSE IF T.status = "encerr" THEN "ok" ELSE "bad"
  ELSE IF e.ev = "cut" THEN "skip"
  ELSE "bad"                                           \* panic, timeout, anything unknown

\* ---- whole-run observations
RunOK(r, ref, level) ==
  LET encerr == ref.ending = "encerr"
      cut == ref.ending = "running" IN
  IF "stage" \in DOMAIN r /\ r.stage = "emit" THEN FALSE                   \* optimiser/compiler crashed or hung
  ELSE IF "stage" \in DOMAIN r /\ r.stage = "rustc" THEN FALSE             \* emitted source rejected
  ELSE IF "stage" \in DOMAIN r /\ r.stage = "optimize-error" THEN encerr \/ cut
  ELSE IF r.panicked /\ ~("stage" \in DOMAIN r) THEN FALSE                 \* the tool never panics
  ELSE IF cut THEN PrefixCompat(r.stdout, ref.out) /\ PrefixCompat(r.stderr, ref.err)
  ELSE IF encerr THEN
       IF "stage" \in DOMAIN r
       THEN (r.panicked \/ r.code = 101) /\ IsPrefix(r.stdout, ref.out)   \* abnormal stop
       ELSE /\ r.code = 1                                                 \* diagnosed: something beyond the
            /\ IF level = 0                                                \* program's own text is on stderr
               THEN r.stdout = ref.out /\ IsPrefix(ref.err, r.stderr) /\ Len(r.stderr) > Len(ref.err)
               ELSE IsPrefix(r.stdout, ref.out) /\ r.stderr # <<>>        \* earlier text may be withheld
  ELSE /\ ~r.timeout
       /\ r.code = (IF ref.ending = "exit1" THEN 1 ELSE 0)
       /\ r.stdout = ref.out /\ r.stderr = ref.err
LevelOf(how) == IF how \in {"run-O0", "compiled-O0"} THEN 0 ELSE 1

ObsCap == 16     \* digits (base 256) beyond which the reference run is cut
ObsFinal(e) == RunCapped(InitState(e.input), ProgOf(e.prog), e.bound, ObsCap)
ObsBadRuns(e, ref) == {i \in DOMAIN e.runs : ~RunOK(e.runs[i], ref, LevelOf(e.runs[i].how))}
\* the reference observation of one "obs" event and the recorded runs that disagree with it
ObsVerdict(e) ==
  LET theorem == e.tag = "catloop-by-theorem"     \* MC_Cat: CatLoop copies every non-empty input
      fin == ObsFinal(e)
      ref == IF theorem THEN [out |-> e.input, err |-> <<>>, ending |-> "end"] ELSE Obs(fin, ProgOf(e.prog))
      unspec == IF theorem THEN FALSE ELSE fin.status = "unspec"
  IN [ref |-> ref, badruns |-> IF unspec \/ ~e.text_ok THEN {} ELSE ObsBadRuns(e, ref)]

\* ---- the trace machine
Init == l = 1 /\ m = InitState(<<>>) /\ prog = <<>> /\ mode = "skip" /\ bad = 0

Step1 ==
  /\ l <= Len(Rec)
  /\ LET e == Rec[l] IN
     IF e.ev = "reset" THEN
        /\ prog' = ProgOf(e.prog) /\ m' = InitState(e.input) /\ mode' = "run" /\ UNCHANGED bad
     ELSE IF e.ev = "obs" THEN
        \* (bound by \E, not LET: TLC evaluates a bound variable once, but evaluates a LET definition
        \*  again in every conjunct of an action that uses it -- here, the whole reference run)
        \E ov \in {ObsVerdict(e)} :
           /\ (IF e.text_ok THEN TRUE ELSE PrintT(<<"TEXT-MISPARSED", l, ToJson(e.prog)>>))
           /\ (IF ov.badruns = {} THEN TRUE
               ELSE PrintT(<<"MISMATCH", l, ToJson([ev |-> "obs", prog |-> e.prog, input |-> e.input, bound |-> e.bound,
                                                   bad |-> [i \in ov.badruns |-> e.runs[i]], tag |-> e.tag]), ToJson(ov.ref)>>))
           /\ bad' = bad + Cardinality(ov.badruns)
           /\ UNCHANGED <<m, prog, mode>>
     ELSE IF mode = "skip" THEN UNCHANGED <<m, prog, mode, bad>>
     ELSE \E T \in {IF Running(m, prog) THEN Step(m, prog) ELSE m} : \E k \in {EventKind(e, T)} :
          /\ (IF k # "bad" THEN TRUE
              ELSE PrintT(<<"MISMATCH", l, ToJson(e),
                            ToJson(IF Running(m, prog)
                                   THEN [pc |-> m.pc, next |-> T.pc, cur |-> T.cur, out |-> T.out, err |-> T.err,
                                         status |-> T.status, st |-> [i \in DOMAIN T.st |-> [j \in DOMAIN T.st[i] |-> RToText(T.st[i][j])]]]
                                   ELSE [pc |-> m.pc, status |-> m.status, note |-> "run is over"])>>))
          /\ bad' = IF k = "bad" THEN bad + 1 ELSE bad
          /\ mode' = IF k = "ok" /\ e.ev = "step" THEN "run" ELSE "skip"
          /\ m' = IF k = "ok" /\ e.ev = "step" THEN T ELSE m
          /\ UNCHANGED prog
  /\ l' = l + 1
Next == Step1
Spec == Init /\ [][Next]_vars

\* every state the validated machine goes through satisfies the machine invariants
MachineInv == NoNaNAtBottom(m) /\ AllCanonicalValues(m)

Accepted ==
  /\ PrintT(<<"TRACE-END", TLCGet("stats").diameter - 1, Len(Rec)>>)
  /\ TLCGet("stats").diameter - 1 = Len(Rec)
=============================================================================
