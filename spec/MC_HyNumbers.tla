--------------------------- MODULE MC_HyNumbers ---------------------------
(* Self-check of HyNumbers against TLC's native integers (DESIGN 3.1).     *)
(* For a small base B and all integers |v| < B^K every operator must agree *)
(* with native arithmetic and return canonical values.                     *)
EXTENDS HyNumbers, TLC, FiniteSets
CONSTANT K
VARIABLES a, b
RECURSIVE Pow(_,_)
Pow(x, n) == IF n = 0 THEN 1 ELSE x * Pow(x, n-1)
Lim == Pow(B, K) - 1
Range == (-Lim) .. Lim
RECURSIVE MagVal(_)
MagVal(m) == IF m = <<>> THEN 0 ELSE m[1] + B * MagVal(Tail(m))
Val(i) == IF i.neg THEN -MagVal(i.mag) ELSE MagVal(i.mag)
Sgn(x) == IF x < 0 THEN -1 ELSE IF x = 0 THEN 0 ELSE 1
Abs(x) == IF x < 0 THEN -x ELSE x
\* native truncating division
TDiv(x, y) == Sgn(x) * Sgn(y) * (Abs(x) \div Abs(y))
TRem(x, y) == x - y * TDiv(x, y)
RECURSIVE NGcd(_,_)
NGcd(x, y) == IF y = 0 THEN x ELSE NGcd(y, x % y)

\* two levels so that TLC's workers share the pairs: one initial state per a
Init == a \in Range /\ b = Lim + 1
Next == b = Lim + 1 /\ b' \in Range /\ a' = a
Spec == Init /\ [][Next]_<<a, b>>

IntOps ==
  LET x == IFromInt(a)  y == IFromInt(b) IN
  /\ IsCanonicalInt(x) /\ Val(x) = a
  /\ IsCanonicalInt(IAdd(x,y)) /\ Val(IAdd(x,y)) = a + b
  /\ IsCanonicalInt(ISub(x,y)) /\ Val(ISub(x,y)) = a - b
  /\ IsCanonicalInt(IMul(x,y)) /\ Val(IMul(x,y)) = a * b
  /\ IsCanonicalInt(INeg(x)) /\ Val(INeg(x)) = -a
  /\ ICmp(x,y) = Sgn(a - b)
  /\ (x = y) = (a = b)
  /\ b # 0 => /\ IsCanonicalInt(IDiv(x,y)) /\ Val(IDiv(x,y)) = TDiv(a,b)
              /\ IsCanonicalInt(IRem(x,y)) /\ Val(IRem(x,y)) = TRem(a,b)
              /\ IsTruncDiv(x, y, IDiv(x,y), IRem(x,y))
              \* the postcondition fixes the pair uniquely
              /\ \A q \in {TDiv(a,b)-1, TDiv(a,b), TDiv(a,b)+1} :
                   IsTruncDiv(x, y, IFromInt(q), IFromInt(a - q*b)) = (q = TDiv(a,b))
  /\ MagVal(IGcdMag(x,y)) = NGcd(Abs(a), Abs(b))

RatOps ==
  \* a/b as a rational, combined with a few fixed partners
  LET x == RFromInts(IFromInt(a), IFromInt(b))
      Partners == {RInt(0), RInt(1), RInt(-2), RFromInts(IFromInt(1),IFromInt(2)),
                   RFromInts(IFromInt(-3),IFromInt(2)), NaN}
  IN
  /\ IsCanonicalRat(x)
  /\ (b = 0) = IsNaN(x)
  /\ b # 0 => /\ Val(x.num) * b = a * Val(x.den)         \* same value
              /\ RIsNonNeg(x) = (a * b >= 0)
              /\ (a * b >= 0 => Val(RFloorNonNeg(x)) = Abs(a) \div Abs(b))
              /\ RFromText(RToText(x)) = x
  /\ IsCanonicalRat(RNeg(x)) /\ IsCanonicalRat(RInv(x))
  /\ (IsNaN(RInv(x)) = (b = 0 \/ a = 0))
  /\ \A p \in Partners :
       LET s == RAdd(x,p) m == RMul(x,p) IN
       /\ IsCanonicalRat(s) /\ IsCanonicalRat(m)
       /\ (IsNaN(s) = (IsNaN(x) \/ IsNaN(p))) /\ (IsNaN(m) = (IsNaN(x) \/ IsNaN(p)))
       /\ (~IsNaN(s) =>
             \* x.num/x.den + p.num/p.den = s.num/s.den by cross multiplication
             (Val(x.num)*Val(p.den) + Val(p.num)*Val(x.den)) * Val(s.den)
               = Val(s.num) * Val(x.den) * Val(p.den))
       /\ (~IsNaN(m) => Val(x.num)*Val(p.num)*Val(m.den) = Val(m.num)*Val(x.den)*Val(p.den))
       /\ RCmp(x,p) = (IF IsNaN(x) \/ IsNaN(p) THEN "un"
                       ELSE LET d == Val(x.num)*Val(p.den) - Val(p.num)*Val(x.den)
                            IN IF d < 0 THEN "lt" ELSE IF d = 0 THEN "eq" ELSE "gt")
       /\ (RCmp(x,p) = "eq") = (x = p /\ ~IsNaN(x))    \* structural = numeric on canonical forms

TextOps ==
  LET x == IFromInt(a) IN
  \A base \in 2 .. 36 :
    LET t == IToText(x, base) IN
    /\ IsConventional(t, base)
    /\ ITextValue(t, base) = x
Agree == b # Lim + 1 => (IntOps /\ RatOps /\ (b = 0 => TextOps))
=============================================================================
