SPECIFICATION Spec
CONSTANT B = 256
POSTCONDITION Accepted
CHECK_DEADLOCK FALSE
