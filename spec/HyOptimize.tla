----------------------------- MODULE HyOptimize -----------------------------
(***************************************************************************)
(* The two optimisation levels of src/core/optimize.rs as transformations  *)
(* of HyMachine programs, and the pipeline of src/app/run.rs that runs     *)
(* their result (properties C02 and C10).                                  *)
(*                                                                         *)
(* Level 1 (`optimize`, first half): stacks above 3 are renumbered.  Every *)
(*   stack a program can select (destination of a 흑 command) keeps a      *)
(*   private slot 4, 5, ... in increasing order; every other stack above 3 *)
(*   is write-only and shares one slot.  Counts are not touched: the label *)
(*   count syllables x dots travels separately (field `cnt`).  The result  *)
(*   runs on a bounds-checked vector of `size` stacks (OptState).          *)
(*                                                                         *)
(* Level 2 (`opt_execute` / second half of `optimize`): commands are taken *)
(*   one at a time and executed speculatively, with                        *)
(*     - a Bail instead of any pop that would address stack 0, 1 or 2      *)
(*       (in any of the five popping kinds or inside area evaluation),     *)
(*     - a Bail when the jump counter of this command reaches Budget,      *)
(*     - on Bail: stacks, selected stack, labels, last jump source, code   *)
(*       log and the output captured during THIS command are rolled back   *)
(*       to the snapshot taken before the command; the remaining commands  *)
(*       are the residual program.                                         *)
(*   The captured output is then written first and the residual runs.      *)
(*                                                                         *)
(* The environment - standard input, process liveness - is part of the     *)
(* machine state (inp, status), and pre-execution is wired to it exactly   *)
(* as the code is wired to the real stdin and the exiting pop: the guards  *)
(* are what keeps it away.  `Guards` selects which guards are in place, so *)
(* that MC can show each one is needed (a missing guard violates           *)
(* NoEffects).                                                             *)
(***************************************************************************)
EXTENDS HyMachine, TLC

CONSTANT Budget          \* jumps a command may take speculatively (100 in the code)
CONSTANT Guards          \* subset of {"kind", "area", "budget"} (all three in the code)

\* ------------------------------------------------------------------ level 1
Selectable(prog) == {prog[i].d : i \in {j \in DOMAIN prog : prog[j].k = 5}}
PrivateAbove3(prog) == {s \in Selectable(prog) : s > 3}
\* rank of s among the private stacks: 0-based
Rank(S, s) == Cardinality({t \in S : t < s})
SharedSlot(prog) == 4 + Cardinality(PrivateAbove3(prog))
SlotOf(prog, s) == IF s <= 3 THEN s
                   ELSE IF s \in PrivateAbove3(prog) THEN 4 + Rank(PrivateAbove3(prog), s)
                   ELSE SharedSlot(prog)
StackCount(prog) == SharedSlot(prog) + 1
Renumber(prog) ==
  [i \in DOMAIN prog |->
     LET c == prog[i] IN
     [k |-> c.k, h |-> c.h, a |-> c.a, cnt |-> c.h * c.d,
      d |-> IF c.k = 0 THEN c.d ELSE SlotOf(prog, c.d)]]
\* For kind 0 the dot count is a value, not a stack, and stays; AreaCount of a renumbered kind-0
\* command is c.cnt = h*d all the same.

\* OptState: pushes beyond the vector are dropped, pops beyond it give NaN.  After Renumber every
\* stack index is below StackCount, so the bounds check never bites; it is part of the refinement
\* claim (BoundsNeverBite) rather than of the semantics.
BoundsNeverBite(S, prog) == S.cur < StackCount(prog) /\ \A i \in DOMAIN S.st : i < StackCount(prog)

\* refinement mapping between a reference state S0 (running prog) and a level-1 state S1
\* (running Renumber(prog)) reached by the same number of steps
Level1Related(S0, S1, prog) ==
  /\ S1.pc = S0.pc /\ S1.labels = S0.labels /\ S1.last = S0.last
  /\ S1.out = S0.out /\ S1.err = S0.err /\ S1.status = S0.status /\ S1.inp = S0.inp
  /\ S1.cur = SlotOf(prog, S0.cur)
  /\ \A s \in (0 .. 3) \cup PrivateAbove3(prog) : Stk(S1, SlotOf(prog, s)) = Stk(S0, s)

\* ------------------------------------------------------------------ level 2
\* would executing command c in state S pop from stack 0, 1 or 2 ?
KindNeedsLowPop(S, c) == c.k \in 1 .. 5 /\ S.cur <= 2

RECURSIVE EvalAreaGuarded(_,_,_)
\* <<state, heart type, bailed>>: as EvalArea, but a pop from a stack <= 2 is a Bail
EvalAreaGuarded(S, a, cnt) ==
  IF a = Nil THEN <<S, 0, FALSE>>
  ELSE IF a[1] = "h" THEN <<S, a[2], FALSE>>
  ELSE IF "area" \in Guards /\ S.cur <= 2 THEN <<S, 0, TRUE>>
  ELSE LET r == PopWrap(S, S.cur)
           c == RCmp(r[2], RInt(cnt))
       IN IF r[1].status # "run" THEN <<r[1], 0, FALSE>>
          ELSE IF (a[1] = "?" /\ c = "lt") \/ (a[1] = "!" /\ c = "eq")
               THEN EvalAreaGuarded(r[1], a[2], cnt) ELSE EvalAreaGuarded(r[1], a[3], cnt)

\* one speculative step inside the current top-level command; log = commands seen so far.
\* Result: [S, bail, jumped]
SpecStep(S, log) ==
  LET c == log[S.pc + 1] IN
  IF "kind" \in Guards /\ KindNeedsLowPop(S, c) THEN [S |-> S, bail |-> TRUE, jumped |-> FALSE]
  ELSE LET S1 == Exec(S, c)
           ar == EvalAreaGuarded(S1, c.a, AreaCount(c))
       IN IF ar[3] THEN [S |-> S, bail |-> TRUE, jumped |-> FALSE]
          ELSE IF ar[1].status # "run" THEN [S |-> ar[1], bail |-> FALSE, jumped |-> FALSE]
          ELSE LET T == Jump(ar[1], S.pc, AreaCount(c), ar[2])
               IN [S |-> T, bail |-> FALSE, jumped |-> T.pc # S.pc + 1]

\* speculative execution of one top-level command (opt_execute): run until control passes the end
\* of the log, bailing out as described.  Strict fold over a step budget that cannot be exceeded:
\* between two jumps control moves forward, so at most (Budget+1) * Len(log) steps happen.
\* acc = [S, jumps, steps, state: "run" | "done" | "bail"]
SpecCommand(S0, log) ==
  LET maxSteps == (Budget + 1) * Len(log) + 1
      go(acc, i) ==
        IF acc.state # "run" THEN acc
        ELSE IF acc.S.status # "run" THEN [acc EXCEPT !.state = "done"]
        ELSE IF acc.S.pc >= Len(log) THEN [acc EXCEPT !.state = "done"]
        ELSE IF "budget" \in Guards /\ acc.jumps >= Budget THEN [acc EXCEPT !.state = "bail"]
        ELSE LET r == SpecStep(acc.S, log) IN
             IF r.bail THEN [acc EXCEPT !.state = "bail"]
             ELSE [S |-> r.S, jumps |-> acc.jumps + (IF r.jumped THEN 1 ELSE 0), steps |-> acc.steps + 1, state |-> "run"]
  IN FoldLeft(go, [S |-> S0, jumps |-> 0, steps |-> 0, state |-> "run"], [i \in 1 .. maxSteps + 1 |-> i])

\* the whole pre-execution (second half of `optimize`): commands one at a time; stops at the
\* first command that bails (rolled back) or ends the run (error / no more commands).
\* acc = [S, k (commands completed), work (speculative steps), stop,
\*        exhausted (a speculative command was still running when the step bound of the fold ran out:
\*        never the case with the budget guard in place - SpecTerminates)]
PreExec(prog, S0) ==
  LET go(acc, i) ==
        IF acc.stop THEN acc
        ELSE LET log == SubSeq(prog, 1, i)
                 r == SpecCommand(acc.S, log)
             IN IF r.state = "bail" \/ r.state = "run"
                THEN [acc EXCEPT !.stop = TRUE, !.work = @ + r.steps,      \* roll back: acc.S is the snapshot
                                 !.exhausted = (r.state = "run")]
                ELSE [S |-> r.S, k |-> i, work |-> acc.work + r.steps, stop |-> r.S.status # "run", exhausted |-> FALSE]
  IN FoldLeft(go, [S |-> S0, k |-> 0, work |-> 0, stop |-> FALSE, exhausted |-> FALSE], [i \in 1 .. Len(prog) |-> i])

\* the level-2 pipeline as wired in run.rs: captured text first, then the residual commands
\* on the state pre-execution left behind, for at most n steps
RunLevel2(prog, input, n) ==
  LET p == PreExec(Renumber(prog), InitState(input))
  IN RunFor(p.S, Renumber(prog), n)
RunLevel1(prog, input, n) == RunFor(InitState(input), Renumber(prog), n)
RunLevel0(prog, input, n) == RunFor(InitState(input), prog, n)

\* ------------------------------------------------------------------ theorems (checked by MC_HyOptimize)
PrefixCompat(a, b) == IsPrefix(a, b) \/ IsPrefix(b, a)
\* observable equivalence, prefix-compatible when a bound cuts either run; an encoding error may
\* come with earlier text withheld (it is raised while optimising)
ObsEquiv(R0, R1, prog0, prog1) ==
  LET e0 == Ending(R0, prog0)  e1 == Ending(R1, prog1) IN
  IF e0 = "unspec" \/ e1 = "unspec" THEN TRUE
  ELSE IF e0 = "running" \/ e1 = "running" THEN PrefixCompat(R0.out, R1.out) /\ PrefixCompat(R0.err, R1.err)
  ELSE IF e0 = "encerr" THEN e1 = "encerr" /\ IsPrefix(R1.out, R0.out)
  ELSE e1 = e0 /\ R1.out = R0.out /\ R1.err = R0.err

\* pre-execution performed none of the program's effects
NoEffects(prog, input) ==
  LET p == PreExec(Renumber(prog), InitState(input))
  IN p.S.inp = InitState(input).inp /\ p.S.status \in {"run", "encerr", "unspec"}
\* every speculative command comes to an end (completed or abandoned) within its step bound
SpecTerminates(prog, input) == ~PreExec(Renumber(prog), InitState(input)).exhausted
\* and did a bounded amount of work whatever the program does
BoundedWork(prog, input) ==
  PreExec(Renumber(prog), InitState(input)).work <= Len(prog) * ((Budget + 1) * Len(prog) + 1)
=============================================================================
