SPECIFICATION Spec
CONSTANTS
  B = 4
  K = 3
INVARIANT Agree
CHECK_DEADLOCK FALSE
