------------------------------- MODULE HyRepl -------------------------------
(***************************************************************************)
(* The interactive interpreter of src/app/interpreter.rs (property C12).   *)
(* The machine state and the command log persist across entered lines; a   *)
(* line of source text appends its commands one by one, each followed by   *)
(* execution until control passes the newest command (execute()); the two  *)
(* output buffers are flushed once per line.  `clear` starts over.         *)
(*                                                                         *)
(* Rs = [m, log, alive, segs]: machine state, command log, "prompt" |      *)
(* "exit0" | "exit1" | "eof" | "noclaim", and one sequence of shown events *)
(* per entered line.                                                       *)
(***************************************************************************)
EXTENDS HyMachine
CONSTANT LineBound        \* steps one entered command may take before the session counts as hanging

ReplInit == [m |-> InitState(<<>>), log |-> <<>>, alive |-> "prompt", segs |-> <<>>]

Chunks(A, Z) ==
  LET o == SubSeq(Z.out, Len(A.out) + 1, Len(Z.out))
      e == SubSeq(Z.err, Len(A.err) + 1, Len(Z.err))
  IN (IF o = <<>> THEN <<>> ELSE << <<"out", o>> >>) \o (IF e = <<>> THEN <<>> ELSE << <<"err", e>> >>)

\* EnterCommand: append one command and run until control passes it (or the run ends / hangs)
EnterCommand(acc, c) ==
  IF acc.alive # "prompt" THEN acc
  ELSE LET log2 == Append(acc.log, c)
           T == RunFor(acc.m, log2, LineBound)
       IN IF T.status \in {"encerr", "unspec"} \/ Running(T, log2)
          THEN [acc EXCEPT !.alive = "noclaim"]
          ELSE [acc EXCEPT !.m = T, !.log = log2, !.alive = IF T.status = "run" THEN "prompt" ELSE T.status]

\* a line: {"kind": "code", cmds} | "clear" | "help" | "blank"
EnterLine(Rs, line) ==
  IF Rs.alive # "prompt" THEN Rs
  ELSE IF line.kind = "clear" THEN [Rs EXCEPT !.m = InitState(<<>>), !.log = <<>>, !.segs = Append(@, <<>>)]
  ELSE IF line.kind # "code" THEN [Rs EXCEPT !.segs = Append(@, <<>>)]
  ELSE LET R2 == FoldLeft(EnterCommand, Rs, line.cmds)
       IN IF R2.alive = "noclaim" THEN R2
          ELSE [R2 EXCEPT !.segs = Append(@, Chunks(Rs.m, R2.m)
                                             \o (IF R2.alive = "exit0" THEN << <<"end", 0>> >>
                                                 ELSE IF R2.alive = "exit1" THEN << <<"end", 1>> >> ELSE <<>>))]
ReplRun(lines) ==
  LET Rz == FoldLeft(EnterLine, ReplInit, lines)
  IN IF Rz.alive = "prompt" THEN [Rz EXCEPT !.alive = "eof", !.segs = Append(@, << <<"end", 0>> >>)] ELSE Rz

\* ------------------------------------------------------------------ the property, in the specification
RECURSIVE CatText(_,_)
CatText(evs, tag) == IF evs = <<>> THEN <<>>
                     ELSE (IF Head(evs)[1] = tag THEN Head(evs)[2] ELSE <<>>) \o CatText(Tail(evs), tag)
RECURSIVE FlattenSegs(_)
FlattenSegs(segs) == IF segs = <<>> THEN <<>> ELSE Head(segs) \o FlattenSegs(Tail(segs))
RECURSIVE ConcatCmds(_)
ConcatCmds(lines) == IF lines = <<>> THEN <<>>
                     ELSE (IF Head(lines).kind = "code" THEN Head(lines).cmds ELSE <<>>) \o ConcatCmds(Tail(lines))
\* entering `lines` (code lines only) shows, in total, exactly what running the whole program writes
SameAsWhole(lines, bound) ==
  LET Rz == ReplRun(lines)
      prog == ConcatCmds(lines)
      W == RunFor(InitState(<<>>), prog, bound)
      all == FlattenSegs(Rz.segs)
  IN Rz.alive = "noclaim" \/ Ending(W, prog) \in {"running", "encerr", "unspec"}
     \/ ( /\ CatText(all, "out") = W.out /\ CatText(all, "err") = W.err
          /\ Rz.alive = (IF Ending(W, prog) = "end" THEN "eof" ELSE Ending(W, prog)) )
=============================================================================
