---------------------------- MODULE MC_HyParser ----------------------------
(***************************************************************************)
(* (M) For every text up to MaxLen characters over a class-representative  *)
(* alphabet: the parser machine (HyParser) computes exactly the grammar's  *)
(* commands (HyGrammar); re-parsing the concatenated raw texts gives the   *)
(* same commands; the `check` listing line determines the command.         *)
(* (R) Every text is printed with the commands the grammar assigns; the    *)
(* harness replays each one through the real parse::parse.                 *)
(* The text is grown one character at a time, so TLC explores the tree of  *)
(* all texts without building the set of texts.                            *)
(***************************************************************************)
EXTENDS HyParser, TLC, Json
CONSTANTS Alphabet, MaxLen, DumpOn

VARIABLE text
Init == text = <<>>
Next == Len(text) < MaxLen /\ \E c \in Alphabet : text' = Append(text, c)
Spec == Init /\ [][Next]_text

ParserIsGrammar == Parse(text) = Commands(text)
\* the fold that computes Commands is the defining recursion
FoldIsRecursion == Commands(text) = Cmds(text, 1)

NoLoc(c) == [k |-> c.k, h |-> c.h, d |-> c.d, a |-> c.a, raw |-> c.raw]
NoLocs(cs) == [i \in DOMAIN cs |-> NoLoc(cs[i])]
Reparse == NoLocs(Commands(ConcatRaws(Commands(text)))) = NoLocs(Commands(text))

ListingDetermines == \A i \in DOMAIN Commands(text) :
                        LET c == Commands(text)[i] IN ReadLine(ListLine(c)) = Core(c)

Dump == DumpOn => PrintT(<<"REPLAY", ToJson([t |-> text, c |-> Flats(Commands(text))])>>)
=============================================================================
