---------------------------- MODULE MC_NumReplay ----------------------------
(***************************************************************************)
(* Specification -> implementation replay for the number layer (R).        *)
(* TLC enumerates a finite operand space completely and prints, for each   *)
(* case, the results HyNumbers assigns; hv-num replays every line through  *)
(* BigNum / Num and compares the internal representation of each result.   *)
(*   Mode "ipair": all ordered pairs of integers whose 32-bit limbs are    *)
(*                 drawn from the carry/borrow boundary values, 1..K limbs *)
(*   Mode "rpair": all ordered pairs of rationals p/q, |p| <= P, q <= P,   *)
(*                 and NaN                                                  *)
(*   Mode "misc" : BigNum::new at the isize boundaries, Num::new, text in  *)
(*                 every base 2..36                                        *)
(***************************************************************************)
EXTENDS HyNumbers, TLC, Json, FiniteSets
CONSTANTS Mode, K, P, LimbSel

\* boundary limbs as four base-256 digits
Limb0 == <<0,0,0,0>>
Limb1 == <<1,0,0,0>>
LimbH == <<0,0,0,128>>          \* 2^31
LimbE == <<254,255,255,255>>    \* 2^32 - 2
LimbF == <<255,255,255,255>>    \* 2^32 - 1
LimbM == <<255,255,255,127>>    \* 2^31 - 1
Limbs == CASE LimbSel = "all5" -> {Limb0, Limb1, LimbH, LimbE, LimbF}
           [] LimbSel = "z1f"  -> {Limb0, Limb1, LimbF}
           [] LimbSel = "zhf"  -> {Limb0, LimbH, LimbF}

RECURSIVE LimbSeqs(_)
LimbSeqs(n) == IF n = 0 THEN {<<>>}
               ELSE {l \o r : l \in Limbs, r \in LimbSeqs(n-1)}
Mags == {NormM(m) : m \in UNION {LimbSeqs(n) : n \in 1 .. K}}
IntVals == {I(s, m) : s \in BOOLEAN, m \in Mags}

RatVals == {RFromInts(IFromInt(p), IFromInt(q)) : p \in (-P) .. P, q \in 1 .. P} \cup {NaN}

None == [none |-> TRUE]
VARIABLES a, b
vars == <<a, b>>

First == CASE Mode = "ipair" -> IntVals
           [] Mode = "rpair" -> RatVals
           [] Mode = "misc"  -> {"new", "rnew", "text"}
Second(x) == CASE Mode = "ipair" -> IntVals
               [] Mode = "rpair" -> RatVals
               [] Mode = "misc" -> {[go |-> TRUE]}

Init == a \in First /\ b = None
Next == b = None /\ b' \in Second(a) /\ a' = a
Spec == Init /\ [][Next]_vars

CmpText(c) == IF c < 0 THEN "lt" ELSE IF c = 0 THEN "eq" ELSE "gt"

IPairCase ==
  LET base == [k |-> "ipair", a |-> a, b |-> b, add |-> IAdd(a,b), sub |-> ISub(a,b), mul |-> IMul(a,b),
               nega |-> INeg(a), cmp |-> CmpText(ICmp(a,b)), eq |-> (a = b),
               gcd |-> I(FALSE, IGcdMag(a,b))]
  IN IF IIsZero(b) THEN base
     ELSE [k |-> "ipair", a |-> a, b |-> b, add |-> IAdd(a,b), sub |-> ISub(a,b), mul |-> IMul(a,b),
           nega |-> INeg(a), cmp |-> CmpText(ICmp(a,b)), eq |-> (a = b),
           gcd |-> I(FALSE, IGcdMag(a,b)), div |-> IDiv(a,b), rem |-> IRem(a,b)]

RPairCase ==
  [k |-> "rpair", a |-> a, b |-> b, add |-> RAdd(a,b), mul |-> RMul(a,b), nega |-> RNeg(a), inva |-> RInv(a),
   cmp |-> RCmp(a,b), isposa |-> RIsNonNeg(a), isnana |-> IsNaN(a),
   floora |-> IF RIsNonNeg(a) THEN RFloorNonNeg(a) ELSE IZero, texta |-> RToText(a)]

\* isize boundary magnitudes
NewMags == { <<>>, <<1>>, LimbM, LimbH, LimbF, Limb0 \o <<1>>, Limb1 \o <<1>>,
             LimbF \o LimbM, <<255>>, <<0,0,1>>, Limb0 \o <<2>> }
NewCases == {[k |-> "inew", n |-> I(s, m)] : s \in BOOLEAN, m \in NewMags}
            \cup {[k |-> "inew", n |-> I(TRUE, Limb0 \o LimbH)]}          \* isize::MIN
RNewCases == {[k |-> "rnew", p |-> p, q |-> q, r |-> RFromInts(IFromInt(p), IFromInt(q))] :
                p \in (-P) .. P, q \in 0 .. P} \ {[k |-> "rnew", p |-> 0, q |-> 0, r |-> NaN]}
TextInts == {IFromInt(v) : v \in (-40) .. 40}
            \cup {I(s, m) : s \in BOOLEAN, m \in {LimbH, LimbF, Limb0 \o <<1>>, LimbF \o LimbF, Limb0 \o Limb0 \o <<1>>}}
TextCases == {[k |-> "itext", v |-> v, base |-> base, t |-> IToText(v, base)] : v \in TextInts, base \in 2 .. 36}

Emit(c) == PrintT(<<"REPLAY", ToJson(c)>>)
Dump ==
  b # None =>
    CASE Mode = "ipair" -> Emit(IPairCase)
      [] Mode = "rpair" -> Emit(RPairCase)
      [] Mode = "misc" ->
           CASE a = "new"  -> \A c \in NewCases : Emit(c)
             [] a = "rnew" -> \A c \in RNewCases : Emit(c)
             [] a = "text" -> \A c \in TextCases : Emit(c)

\* results handed to the implementation are canonical (sanity of the oracle itself)
OracleCanonical ==
  b # None =>
    CASE Mode = "ipair" -> IsCanonicalInt(IAdd(a,b)) /\ IsCanonicalInt(IMul(a,b)) /\ IsCanonicalInt(ISub(a,b))
      [] Mode = "rpair" -> IsCanonicalRat(RAdd(a,b)) /\ IsCanonicalRat(RMul(a,b)) /\ IsCanonicalRat(RInv(a))
      [] OTHER -> TRUE
=============================================================================
