--------------------------- MODULE Trace_HyParser ---------------------------
(***************************************************************************)
(* Trace validation for the parser (C04, C08).  hv-parse records, for      *)
(* random Unicode texts and for rendered command lists, what the real      *)
(* parse::parse returned; this module evaluates HyGrammar!Commands on the  *)
(* recorded code points (the specification classifies the characters, the  *)
(* harness does not) and compares.  Events are independent; a mismatch is  *)
(* printed and the cursor moves on.                                        *)
(***************************************************************************)
EXTENDS HyGrammar, TLC, Json, IOUtils

Rec == ndJsonDeserialize(IOEnv.TRACE)
VARIABLES l, bad
vars == <<l, bad>>

NoLocF(c) == [k |-> c.k, h |-> c.h, d |-> c.d, ap |-> c.ap, raw |-> c.raw]
NoLocsF(cs) == [i \in DOMAIN cs |-> NoLocF(cs[i])]
CoreF(c) == [k |-> c.k, h |-> c.h, d |-> c.d, ap |-> c.ap]
CoresF(cs) == [i \in DOMAIN cs |-> CoreF(cs[i])]
RECURSIVE CatRaw(_)
CatRaw(cs) == IF cs = <<>> THEN <<>> ELSE Head(cs).raw \o CatRaw(Tail(cs))

\* "parse": the parser returned exactly the grammar's commands (kind, counts, area, location,
\*          raw text), and parsing the concatenated raw texts returns the same commands again
ParseOK(e, want) ==
  /\ e.c = want
  /\ e.c2 = Flats(Commands(CatRaw(want)))
  /\ NoLocsF(e.c2) = NoLocsF(want)
\* "render": the text is a rendering of `intended` (checked against the grammar, so a bad
\*           rendering by the harness is not blamed on the parser) and parses back to it
\* "listing": `hyeong check` printed one line per command, and each line read back gives the
\*            command's index, location, kind, counts and area
ListingOK(e, want) ==
  /\ e.status = 0
  /\ Len(e.lines) = Len(want)
  /\ \A i \in DOMAIN want :
       LET r == ReadCheckLine(e.lines[i]) IN
       /\ r.idx = i - 1 /\ r.line = want[i].line /\ r.col = want[i].col
       /\ r.core.k = want[i].k /\ r.core.h = want[i].h /\ r.core.d = want[i].d
       /\ Prefix(r.core.a) = want[i].ap

Kind(e, want) ==
  IF e.ev = "panic" THEN "bad"
  ELSE IF e.ev = "parse" THEN (IF ParseOK(e, want) THEN "ok" ELSE "bad")
  ELSE IF e.ev = "render" THEN (IF CoresF(want) # e.intended THEN "harness"
                                ELSE IF e.c = want THEN "ok" ELSE "bad")
  ELSE IF e.ev = "listing" THEN (IF ListingOK(e, want) THEN "ok" ELSE "bad")
  ELSE "ok"

Init == l = 1 /\ bad = 0
Step == /\ l <= Len(Rec)
        \* (want, k bound by \E: a LET definition is evaluated again in every conjunct of an action)
        /\ LET e == Rec[l] IN \E want \in {Flats(Commands(e.t))} : \E k \in {Kind(e, want)} :
              /\ (IF k = "ok" THEN TRUE
                  ELSE PrintT(<<IF k = "bad" THEN "MISMATCH" ELSE "HARNESS", l, ToJson(e), ToJson(want)>>))
              /\ bad' = IF k = "ok" THEN bad ELSE bad + 1
        /\ l' = l + 1
Next == Step
Spec == Init /\ [][Next]_vars
Accepted ==
  /\ PrintT(<<"TRACE-END", TLCGet("stats").diameter - 1, Len(Rec)>>)
  /\ TLCGet("stats").diameter - 1 = Len(Rec)
=============================================================================
