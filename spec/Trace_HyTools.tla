---------------------------- MODULE Trace_HyTools ----------------------------
(***************************************************************************)
(* Trace validation of sessions with the real `hyeong` process:            *)
(*   dbg   debugger sessions (C11)      against HyDebugger                 *)
(*   repl  interactive sessions (C12)   against HyRepl                     *)
(*   cli   run / check invocations (C13) against HyCli                     *)
(* Each event is one whole session; events are independent.                *)
(***************************************************************************)
EXTENDS HyDebugger, HyRepl, HyCli, TLC, Json, IOUtils

Rec == ndJsonDeserialize(IOEnv.TRACE)
VARIABLES l, bad
vars == <<l, bad>>

RECURSIVE FromPrefixR(_,_)
FromPrefixR(ap, i) ==
  IF ap[i] = 0 THEN <<Nil, i + 1>>
  ELSE IF ap[i] \in {63, 33}
       THEN LET lft == FromPrefixR(ap, i + 1)
                rgt == FromPrefixR(ap, lft[2])
            IN << <<IF ap[i] = 63 THEN "?" ELSE "!", lft[1], rgt[1]>>, rgt[2] >>
  ELSE << <<"h", ap[i] - 100>>, i + 1 >>
CmdOf(j) == [k |-> j.k, h |-> j.h, d |-> j.d, a |-> FromPrefixR(j.ap, 1)[1]]
ProgOf(js) == [i \in DOMAIN js |-> CmdOf(js[i])]

\* recorded event -> the specification's event form
StFn(st) == [i \in {p[1] : p \in {st[x] : x \in DOMAIN st}} |->
               (CHOOSE p \in {st[x] : x \in DOMAIN st} : p[1] = i)[2]]
EvOf(r) == CASE r.t = "state" -> <<"state", r.cur, StFn(r.st)>>
             [] r.t = "out" -> <<"out", r.text>>
             [] r.t = "err" -> <<"err", r.text>>
             [] r.t = "end" -> <<"end", r.code>>
EvsOf(rs) == [i \in DOMAIN rs |-> EvOf(rs[i])]

\* transcripts are line based: sessions whose expected output contains control characters are not compared
CleanText(evs) == \A i \in DOMAIN evs : evs[i][1] \in {"out", "err"} =>
                     \A j \in DOMAIN evs[i][2] : evs[i][2][j] >= 32 /\ evs[i][2][j] # 127 /\ evs[i][2][j] # 62

DbgVerdict(e) ==
  LET prog == ProgOf(e.prog) IN
  IF e.panicked THEN "bad"
  ELSE IF PopsInputFor(InitState(<<>>), prog, 400) THEN "skip"      \* reads input: outside C11
  ELSE LET D == DbgRun(<<>>, prog, e.script) IN
       IF D.alive = "noclaim" \/ ~CleanText(D.shown) THEN "skip"
       ELSE IF e.timeout THEN "bad"
       ELSE IF EvsOf(e.events) = D.shown THEN "ok" ELSE "bad"

ReplLineOf(j) == IF j.kind = "code" THEN [kind |-> "code", cmds |-> ProgOf(j.cmds)] ELSE [kind |-> j.kind]
ReplVerdict(e) ==
  LET lines == [i \in DOMAIN e.lines |-> ReplLineOf(e.lines[i])]
      all == ConcatCmds(lines) IN
  IF e.panicked THEN "bad"
  ELSE IF PopsInputFor(InitState(<<>>), all, 400) THEN "skip"
  ELSE LET Rz == ReplRun(lines) IN
       IF Rz.alive = "noclaim" \/ ~CleanText(FlattenSegs(Rz.segs)) THEN "skip"
       ELSE IF e.timeout THEN "bad"
       ELSE \* one recorded segment per prompt; the status is the last expected event
            LET want == Rz.segs
                n == Len(want)
                code == want[n][Len(want[n])][2]
                wantNoEnd == [i \in 1 .. n |-> SelectSeq(want[i], LAMBDA x : x[1] # "end")]
                got == [i \in DOMAIN e.segs |-> EvsOf(e.segs[i])]
            IN IF e.code = code /\ Len(got) >= n
                  /\ \A i \in 1 .. n : got[i] = wantNoEnd[i]
                  /\ \A k \in (n + 1) .. Len(got) : got[k] = <<>>
               THEN "ok" ELSE "bad"

\* [v |-> "ok" | "bad" | "skip", log |-> "ok" | "drift" | "none"]
Verdict(e) == CASE e.ev = "dbg" -> [v |-> DbgVerdict(e), log |-> "none"]
                [] e.ev = "repl" -> [v |-> ReplVerdict(e), log |-> "none"]
                [] e.ev = "cli" -> CliJudge(e, e.bound)
                [] OTHER -> [v |-> "ok", log |-> "none"]
Expected(e) == CASE e.ev = "dbg" -> DbgRun(<<>>, ProgOf(e.prog), e.script).shown
                 [] e.ev = "repl" -> ReplRun([i \in DOMAIN e.lines |-> ReplLineOf(e.lines[i])]).segs
                 [] OTHER -> "see HyCli!CliVerdict"

Init == l = 1 /\ bad = 0
Step1 == /\ l <= Len(Rec)
         \* (v bound by \E: TLC evaluates a bound variable once; a LET definition used in several
         \*  conjuncts of an action is evaluated again in each)
         /\ LET e == Rec[l] IN \E j \in {Verdict(e)} :
            /\ (IF j.v = "bad" THEN PrintT(<<"MISMATCH", l, ToJson(e), ToJson(Expected(e))>>)
                ELSE IF j.v = "skip" THEN PrintT(<<"SKIP", l>>) ELSE TRUE)
            /\ (IF j.log = "drift" THEN PrintT(<<"LOG-DRIFT", l, ToJson(e.log), e.sub, e.level, e.verbose>>)
                ELSE IF j.log = "ok" THEN PrintT(<<"LOG-OK", l>>) ELSE TRUE)
            /\ bad' = IF j.v = "bad" THEN bad + 1 ELSE bad
         /\ l' = l + 1
Next == Step1
Spec == Init /\ [][Next]_vars
Accepted ==
  /\ PrintT(<<"TRACE-END", TLCGet("stats").diameter - 1, Len(Rec)>>)
  /\ TLCGet("stats").diameter - 1 = Len(Rec)
=============================================================================
