------------------------------ MODULE HySlices ------------------------------
(* Finite command alphabets ("slices") and input families shared by the bounded models of   *)
(* the machine, the optimiser, the compiler, the debugger and the REPL.                      *)
EXTENDS Integers, Sequences
CONSTANT Slice

LOCAL Nil == <<>>
H(t) == <<"h", t>>
Q(l, r) == <<"?", l, r>>
X(l, r) == <<"!", l, r>>
CmdSet(K, Hs, Ds, As) == {[k |-> k, h |-> h, d |-> d, a |-> a] : k \in K, h \in Hs, d \in Ds, a \in As}

Alphabet ==
  CASE Slice = "arith" ->   \* values: fractions, negatives, NaN, products, several operands
         CmdSet({0}, {1, 2, 3}, {0, 1, 2}, {Nil}) \cup CmdSet({1, 2, 3, 4}, {1, 2, 3}, {1, 3}, {Nil})
         \cup CmdSet({5}, {1, 2}, {3, 4}, {Nil})
    [] Slice = "control" -> \* branches against counts 0..4, labels, return jumps, nested areas
         CmdSet({0}, {1, 2}, {0, 1, 2}, {Nil, H(2)}) \cup CmdSet({1, 3, 4}, {1, 2}, {3}, {Nil})
         \cup CmdSet({1}, {1}, {1, 3}, {H(2), H(13), Q(Nil, H(2)), Q(H(2), Nil), X(H(4), H(2)), X(Nil, H(13)),
                                     Q(X(Nil, H(2)), H(4)), Q(Nil, Q(H(2), H(4)))})
         \cup CmdSet({5}, {1}, {1, 3}, {Nil, H(13), Q(H(2), Nil)})
    [] Slice = "io" ->      \* stacks 0, 1, 2 as source, destination and selection
         CmdSet({0}, {1, 2}, {0, 3}, {Nil}) \cup CmdSet({1, 2, 3}, {1, 2}, {0, 1, 2, 3}, {Nil})
         \cup CmdSet({5}, {1, 2}, {0, 1, 2, 3}, {Nil, H(2), Q(Nil, H(2))})
         \cup CmdSet({1}, {1}, {1}, {Q(H(2), Nil), X(H(2), Nil)})
    [] Slice = "io3" ->     \* a narrower I/O alphabet for one more command of depth
         CmdSet({0}, {1}, {3}, {Nil}) \cup CmdSet({1}, {1, 2}, {0, 1, 2, 3}, {Nil})
         \cup CmdSet({5}, {1}, {0, 1, 2}, {Nil, Q(Nil, H(2))})
    [] Slice = "opt1" ->    \* stacks above 3: selectable and write-only destinations, jumps back after a switch
         CmdSet({0}, {1, 2}, {1, 2}, {Nil, H(2)}) \cup CmdSet({1, 3}, {1, 2}, {3, 4, 5, 6}, {Nil})
         \cup CmdSet({5}, {1}, {3, 4, 5}, {Nil, H(2)}) \cup CmdSet({1}, {1}, {1}, {Nil})
    [] Slice = "opt2" ->    \* loops (budget), output inside loops, multi-operand restore, reads and exits
         CmdSet({0}, {1, 2}, {1, 3}, {Nil, H(2)}) \cup CmdSet({1}, {1, 2}, {1, 3}, {Nil, H(2), Q(H(2), Nil)})
         \cup CmdSet({3, 4}, {2}, {3, 4}, {Nil}) \cup CmdSet({5}, {1}, {0, 1, 3}, {Nil, H(13)})
    [] Slice = "ret" ->     \* conditional jump back, stack switch to an output stack, return jump: what a level-2
                            \* compiled program must carry over (labels and a pending return-jump target)
         {[k |-> 0, h |-> 1, d |-> 1, a |-> Nil], [k |-> 0, h |-> 1, d |-> 3, a |-> Nil],
          [k |-> 1, h |-> 1, d |-> 3, a |-> H(4)], [k |-> 1, h |-> 2, d |-> 3, a |-> Nil],
          [k |-> 5, h |-> 1, d |-> 3, a |-> X(Nil, H(4))], [k |-> 5, h |-> 2, d |-> 1, a |-> Nil],
          [k |-> 1, h |-> 1, d |-> 1, a |-> Nil], [k |-> 5, h |-> 1, d |-> 3, a |-> Nil],
          [k |-> 0, h |-> 1, d |-> 1, a |-> H(13)]}
    [] Slice = "arithq" ->  \* the arithmetic slice with at most two operands (quick tier)
         CmdSet({0}, {1, 2, 3}, {0, 1, 2}, {Nil}) \cup CmdSet({1, 2, 3, 4}, {1, 2}, {1, 3}, {Nil})
         \cup CmdSet({5}, {1, 2}, {3}, {Nil})
    [] Slice = "controlq" -> \* the control slice with fewer plain commands (quick tier)
         CmdSet({0}, {1, 2}, {0, 1, 2}, {Nil, H(2)}) \cup CmdSet({1, 3}, {1, 2}, {3}, {Nil})
         \cup CmdSet({1}, {1}, {3}, {H(2), H(13), Q(Nil, H(2)), Q(H(2), Nil), X(H(4), H(2)), X(Nil, H(13)),
                                    Q(X(Nil, H(2)), H(4)), Q(Nil, Q(H(2), H(4)))})
         \cup CmdSet({1}, {1}, {1}, {H(2), Q(Nil, H(2))}) \cup CmdSet({5}, {1}, {3}, {Nil, H(13), Q(H(2), Nil)})
    [] Slice = "tiny" ->
         CmdSet({0}, {1, 2}, {1, 3}, {Nil}) \cup CmdSet({1, 3}, {1, 2}, {1, 3}, {Nil, H(2)}) \cup CmdSet({5}, {1}, {1, 2}, {Nil})

Inputs ==
  IF Slice \in {"io", "io3"} THEN {<<>>, <<97>>, <<10>>, <<97, 10>>, <<97, 98>>, <<65536, 10, 98>>, <<10, 97>>}
  ELSE IF Slice = "opt2" THEN {<<>>, <<97, 10>>}
  ELSE {<<>>}

=============================================================================
