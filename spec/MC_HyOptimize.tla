---------------------------- MODULE MC_HyOptimize ----------------------------
(***************************************************************************)
(* (M) for C02 / C10: for every program of up to MaxLen commands over a    *)
(* slice alphabet and every input of the slice's family                    *)
(*   L1Refines  the level-1 program, run in lock-step with the reference,  *)
(*              stays related by the refinement mapping after every step   *)
(*   L1Eq, L2Eq the level-1 / level-2 pipelines are observably equivalent  *)
(*              to the reference run (prefix-compatible when cut)          *)
(*   NoEff      pre-execution consumed no input and did not end the process*)
(*   Bounded    its work is bounded by the program text                    *)
(* Budget is small here so that "more loops than the budget" lies inside   *)
(* the bound.  Reach_* are expected to be VIOLATED: they witness that the  *)
(* interesting situations (bail by budget, bail by guard, rollback of      *)
(* captured text) occur inside the bound.                                  *)
(***************************************************************************)
EXTENDS HyOptimize, HySlices, HyGrammar, Json
CONSTANTS MaxLen, MaxSteps, DumpOn

VARIABLES prog, input
vars == <<prog, input>>
Init == prog = <<>> /\ input \in Inputs
Next == Len(prog) < MaxLen /\ \E c \in Alphabet : prog' = Append(prog, c) /\ UNCHANGED input
Spec == Init /\ [][Next]_vars

R0 == RunLevel0(prog, input, MaxSteps)
R1 == RunLevel1(prog, input, MaxSteps)
R2 == RunLevel2(prog, input, MaxSteps)
RP == Renumber(prog)

L1Eq == ObsEquiv(R0, R1, prog, RP)
L2Eq == ObsEquiv(R0, R2, prog, RP)
L1Refines ==
  LET go(acc, i) ==
        IF ~acc[3] THEN acc
        ELSE IF ~Running(acc[1], prog) THEN acc
        ELSE LET a == Step(acc[1], prog)  b == Step(acc[2], RP)
             IN <<a, b, a.status = "unspec" \/ (Level1Related(a, b, prog) /\ BoundsNeverBite(b, prog))>>
  IN FoldLeft(go, <<InitState(input), InitState(input), TRUE>>, [i \in 1 .. MaxSteps |-> i])[3]
NoEff == NoEffects(prog, input)
Bounded == BoundedWork(prog, input)
Terminates == SpecTerminates(prog, input)

Pre == PreExec(RP, InitState(input))
Reach_Bail == ~(Pre.k < Len(prog) /\ Pre.S.status = "run")
Reach_FullPreExec == ~(Len(prog) = MaxLen /\ Pre.k = Len(prog))
Reach_BudgetBail ==
  ~(Pre.k < Len(prog) /\ Pre.S.status = "run" /\
    SpecCommand(Pre.S, SubSeq(RP, 1, Pre.k + 1)).jumps >= Budget)
Reach_RollbackDropsText ==
  ~(Pre.k < Len(prog) /\ Pre.S.status = "run" /\
    LET r == SpecCommand(Pre.S, SubSeq(RP, 1, Pre.k + 1)) IN r.S.out # Pre.S.out)
Reach_SharedSlotUsed == ~(\E i \in DOMAIN prog : prog[i].k # 0 /\ prog[i].d > 3 /\ prog[i].d \notin Selectable(prog))

FlatCmd(c) == [k |-> c.k, h |-> c.h, d |-> c.d, ap |-> Prefix(c.a)]
Dump == (DumpOn /\ Len(prog) >= 1) =>
          PrintT(<<"REPLAY", ToJson([prog |-> [i \in DOMAIN prog |-> FlatCmd(prog[i])], input |-> input, ending |-> Ending(R0, prog)])>>)
=============================================================================
