SPECIFICATION Spec
CONSTANTS
  B = 3
  K = 3
INVARIANT Agree
CHECK_DEADLOCK FALSE
