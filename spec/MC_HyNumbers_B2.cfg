SPECIFICATION Spec
CONSTANTS
  B = 2
  K = 3
INVARIANT Agree
CHECK_DEADLOCK FALSE
