--------------------------- MODULE Trace_HyCompile ---------------------------
(* Mechanism binding for HyCompile (diagnostic only): block count, start block, restored label table and   *)
(* pending return-jump target read off the emitted source, against Layout / StartBlock / Restore evaluated *)
(* with the code's own budget.  Differences are printed as DRIFT lines.                                    *)
EXTENDS HyCompile, Json, IOUtils
Rec == ndJsonDeserialize(IOEnv.TRACE)
VARIABLES l
RECURSIVE FromPrefixR(_,_)
FromPrefixR(ap, i) ==
  IF ap[i] = 0 THEN <<Nil, i + 1>>
  ELSE IF ap[i] \in {63, 33}
       THEN LET lft == FromPrefixR(ap, i + 1)
                rgt == FromPrefixR(ap, lft[2])
            IN << <<IF ap[i] = 63 THEN "?" ELSE "!", lft[1], rgt[1]>>, rgt[2] >>
  ELSE << <<"h", ap[i] - 100>>, i + 1 >>
CmdOf(j) == [k |-> j.k, h |-> j.h, d |-> j.d, a |-> FromPrefixR(j.ap, 1)[1]]
ProgOf(js) == [i \in DOMAIN js |-> CmdOf(js[i])]

Drifts(e) ==
  LET prog == ProgOf(e.prog)
      RP == Renumber(prog) IN
  IF ~e.ok \/ prog = <<>> THEN {}
  ELSE IF e.level < 2 THEN
       LET all == IF e.level = 0 THEN prog ELSE RP IN
       (IF e.blocks # BlockCount(all, 0) THEN {"block count"} ELSE {})
  ELSE LET P == PreExec(RP, InitState(<<>>)) IN
       IF P.S.status # "run" \/ P.k = Len(RP) THEN {}        \* error while optimising / nothing left to emit
       ELSE LET T == Restore(P.S, RP, P.k) IN
            (IF e.blocks # BlockCount(RP, P.k) THEN {"level-2 block count"} ELSE {})
            \cup (IF e.start # T.pc THEN {"level-2 start block"} ELSE {})
            \cup (IF e.last # T.last THEN {"level-2 pending return-jump block"} ELSE {})
            \cup (IF {<<e.points[x][1], e.points[x][2], e.points[x][3]>> : x \in DOMAIN e.points}
                     # {<<id[1], id[2], T.labels[id]>> : id \in DOMAIN T.labels}
                  THEN {"level-2 label table (block indices)"} ELSE {})
Init == l = 1
Next == /\ l <= Len(Rec)
        /\ LET d == Drifts(Rec[l]) IN
           IF d = {} THEN TRUE ELSE PrintT(<<"DRIFT", l, Rec[l].level, ToJson(d), ToJson(Rec[l].prog)>>)
        /\ l' = l + 1
Spec == Init /\ [][Next]_l
Accepted == PrintT(<<"TRACE-END", TLCGet("stats").diameter - 1, Len(Rec)>>)
=============================================================================
