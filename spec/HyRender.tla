------------------------------ MODULE HyRender ------------------------------
(***************************************************************************)
(* A nondeterministic renderer: the set of source texts that denote a      *)
(* given command, with filler syllables inside multi-syllable commands,    *)
(* ellipsis characters for dot triples, redundant hearts, dots after the   *)
(* area began and foreign characters in the places the grammar ignores     *)
(* (property C08: any command list can be written as text and read back).  *)
(***************************************************************************)
EXTENDS HyGrammar
CONSTANT Rich      \* TRUE: all variants of ignorable characters; FALSE: a reduced family

SingleOf(k) == CASE k = 0 -> 54805 [] k = 1 -> 54637 [] k = 2 -> 54635
                 [] k = 3 -> 55139 [] k = 4 -> 55137 [] k = 5 -> 55121
StartOf(k) == CASE k = 0 -> 54784 [] k \in {1, 2} -> 54616 [] OTHER -> 55120
EndOf(k) == CASE k = 0 -> 50633 [] k = 1 -> 50521 [] k = 2 -> 50519
              [] k = 3 -> 51023 [] k = 4 -> 51021 [] k = 5 -> 51005

\* syllables that may fill a multi-syllable command of kind k: any Hangul syllable that is not
\* an end syllable of its class (other commands' syllables and start syllables included)
FillFor(k) == (IF Rich THEN {44032, 54805, 54784, 55120, 50633, 51005} ELSE {44032, 54805}) \ EndsOf(StartOf(k))
\* characters ignored inside a multi-syllable command (everything that is not Hangul)
InsideJunk == IF Rich THEN {32, 46, 63, 9829, 120, 10} ELSE {63}

RECURSIVE FillSeqs(_,_)
FillSeqs(k, n) == IF n = 0 THEN {<<>>} ELSE {<<f>> \o s : f \in FillFor(k), s \in FillSeqs(k, n-1)}
SyllableForms(k, h) ==
  IF h = 1 THEN {<<SingleOf(k)>>}
  ELSE {<<StartOf(k)>> \o f \o <<EndOf(k)>> : f \in FillSeqs(k, h-2)}
       \cup {<<StartOf(k), j>> \o f \o <<EndOf(k)>> : j \in InsideJunk, f \in FillSeqs(k, h-2)}

Ellipses == IF Rich THEN {8230, 8943, 8942} ELSE {8230}
RECURSIVE DotForms(_)
DotForms(d) == IF d = 0 THEN {<<>>}
               ELSE {<<46>> \o s : s \in DotForms(d-1)}
                    \cup (IF d >= 3 THEN {<<e>> \o s : e \in Ellipses, s \in DotForms(d-3)} ELSE {})

\* canonical tokens of a grammar-shaped area tree
RECURSIVE Tokens(_)
Tokens(a) == IF a = Nil THEN <<>>
             ELSE IF a[1] = "h" THEN <<HeartChar(a[2])>>
             ELSE Tokens(a[2]) \o <<IF a[1] = "?" THEN Question ELSE Bang>> \o Tokens(a[3])
\* with a redundant heart after every heart, or a dot / foreign character after every token
RECURSIVE Decorate(_,_)
Decorate(toks, extra) == IF toks = <<>> THEN <<>>
                         ELSE <<Head(toks)>> \o (IF IsHeart(Head(toks)) \/ ~IsHeart(extra) THEN <<extra>> ELSE <<>>)
                              \o Decorate(Tail(toks), extra)
AreaForms(a) == LET t == Tokens(a) IN IF Rich THEN {t, Decorate(t, 9825), Decorate(t, 128149), Decorate(t, 46), Decorate(t, 8230), Decorate(t, 32)}
                                      ELSE {t, Decorate(t, 9825)}

Renderings(c) == {s \o d \o a : s \in SyllableForms(c.k, c.h), d \in DotForms(c.d), a \in AreaForms(c.a)}
=============================================================================
