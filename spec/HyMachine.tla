------------------------------ MODULE HyMachine ------------------------------
(***************************************************************************)
(* The Hyeo-ung language definition as an abstract machine: the            *)
(* "independent executable definition" that property C01 refers to, and    *)
(* the reference semantics for C02, C03, C07 (branches), C11, C12, C14.    *)
(*                                                                         *)
(* A machine state is a record                                             *)
(*   pc      index (0-based) of the command to execute next               *)
(*   cur     selected stack (initially 3)                                  *)
(*   st      function: stack index -> sequence of rationals (top = last);  *)
(*           only non-empty stacks are in the domain                       *)
(*   labels  function: <<count, heart type>> -> command index             *)
(*   last    index of the last jump source, or -1                          *)
(*   inp     remaining lines of standard input (each with its terminator)  *)
(*   out,err text written so far (sequences of code points)                *)
(*   status  "run" | "exit0" | "exit1" (requested by popping stack 1 / 2)  *)
(*           | "encerr" (value written to an output stack is not a Unicode *)
(*           scalar value) | "unspec" (value >= 2^32 written: the sources  *)
(*           declare this unspecified; nothing is claimed from there on)   *)
(* Commands are records [k: 0..5, h: syllables, d: dots, a: area tree]     *)
(* (HyGrammar's area trees).  Actions: one operator per thing the          *)
(* interpreter does (PopWrap, PushWrap, Cmd0..Cmd5, EvalArea, Jump); Step  *)
(* is their sequential composition for one command, the grain at which     *)
(* execute_one exposes state.                                              *)
(*                                                                         *)
(* Once status # "run" nothing later in the same command has any effect    *)
(* (the process has ended / the error has been raised).                    *)
(***************************************************************************)
EXTENDS HyNumbers, FiniteSets, SequencesExt, TLC

Nil == <<>>
NoLast == -1

\* ------------------------------------------------------------------ stacks
Stk(S, i) == IF i \in DOMAIN S.st THEN S.st[i] ELSE <<>>
SetStk(S, i, s) ==
  IF s = <<>> THEN [S EXCEPT !.st = [j \in (DOMAIN S.st) \ {i} |-> S.st[j]]]
  ELSE [S EXCEPT !.st = (i :> s) @@ S.st]       \* i |-> s, the rest as before

\* ------------------------------------------------------------------ output
\* code point of a non-negative integer given as magnitude, or -1 if it is no scalar value
ScalarOf(mag) ==
  IF Len(mag) > 3 THEN -1
  ELSE LET n == Dig(mag,1) + 256 * Dig(mag,2) + 65536 * Dig(mag,3)
       IN IF n > 1114111 \/ (n >= 55296 /\ n <= 57343) THEN -1 ELSE n

\* what writing value v to an output stack appends, or how it ends the run
\* (assumes B = 256 so that "below 2^32" is "at most four digits")
Emit(S, stream, v) ==
  LET add(t) == IF stream = 1 THEN [S EXCEPT !.out = @ \o t] ELSE [S EXCEPT !.err = @ \o t] IN
  IF RIsNonNeg(v)
  THEN LET f == RFloorNonNeg(v) IN
       IF Len(f.mag) > 4 THEN [S EXCEPT !.status = "unspec"]
       ELSE IF ScalarOf(f.mag) < 0 THEN [S EXCEPT !.status = "encerr"]
       ELSE add(<<ScalarOf(f.mag)>>)
  ELSE add(RToText(RNeg(v)))              \* negative: its magnitude in decimal; NaN: the NaN text

PushWrap(S, i, v) ==
  IF S.status # "run" THEN S
  ELSE IF i \in {1, 2} THEN Emit(S, i, v)
  ELSE IF Stk(S, i) = <<>> /\ IsNaN(v) THEN S        \* NaN is never put at the bottom of a stack
  ELSE SetStk(S, i, Append(Stk(S, i), v))

\* ------------------------------------------------------------------ input
\* characters of a line become numbers, first character on top
LineToStack(line) == [j \in 1 .. Len(line) |-> RInt(line[Len(line) + 1 - j])]

\* <<state, popped value>>
PopWrap(S, i) ==
  IF S.status # "run" THEN <<S, NaN>>
  ELSE IF i = 1 THEN <<[S EXCEPT !.status = "exit0"], NaN>>
  ELSE IF i = 2 THEN <<[S EXCEPT !.status = "exit1"], NaN>>
  ELSE LET S1 == IF i = 0 /\ Stk(S, 0) = <<>> /\ S.inp # <<>>
                 THEN SetStk([S EXCEPT !.inp = Tail(@)], 0, LineToStack(Head(S.inp)))
                 ELSE S                              \* end of input: nothing arrives
           s == Stk(S1, i)
       IN IF s = <<>> THEN <<S1, NaN>>
          ELSE <<SetStk(S1, i, SubSeq(s, 1, Len(s) - 1)), s[Len(s)]>>

RECURSIVE PopN(_,_,_)
\* n pops; values in the order popped
PopN(S, i, n) == IF n = 0 THEN <<S, <<>>>>
                 ELSE LET r == PopWrap(S, i)  q == PopN(r[1], i, n-1)
                      IN <<q[1], <<r[2]>> \o q[2]>>
RECURSIVE PushAll(_,_,_)
PushAll(S, i, vs) == IF vs = <<>> THEN S ELSE PushAll(PushWrap(S, i, Head(vs)), i, Tail(vs))
\* (strict folds, from the last value popped to the first; see RunFor for why not RECURSIVE)
SumOf(vs) == FoldRight(RAdd, vs, RZero)
ProdOf(vs) == FoldRight(RMul, vs, ROne)
MapSeq(f(_), s) == [j \in DOMAIN s |-> f(s[j])]
Repeat(v, n) == [j \in 1 .. n |-> v]

\* ------------------------------------------------------------------ the six commands
\* the count a command's area compares and labels with: syllables x dots.  (A renumbered command
\* of the optimiser carries it separately, as OptCode.area_count does.)
AreaCount(c) == IF "cnt" \in DOMAIN c THEN c.cnt ELSE c.h * c.d

Cmd0(S, c) == PushWrap(S, S.cur, RInt(AreaCount(c)))                    \* 형: push h*d
Cmd1(S, c) == LET r == PopN(S, S.cur, c.h) IN PushWrap(r[1], c.d, SumOf(r[2]))    \* 항: add
Cmd2(S, c) == LET r == PopN(S, S.cur, c.h) IN PushWrap(r[1], c.d, ProdOf(r[2]))   \* 핫: multiply
Cmd3(S, c) == LET r  == PopN(S, S.cur, c.h)                              \* 흣: negate in place, sum
                  vs == MapSeq(RNeg, Reverse(r[2]))
              IN PushWrap(PushAll(r[1], S.cur, vs), c.d, SumOf(vs))
Cmd4(S, c) == LET r  == PopN(S, S.cur, c.h)                              \* 흡: reciprocal in place, product
                  vs == MapSeq(RInv, Reverse(r[2]))
              IN PushWrap(PushAll(r[1], S.cur, vs), c.d, ProdOf(vs))
Cmd5(S, c) == LET r  == PopWrap(S, S.cur)                                \* 흑: duplicate to d, select d
                  S1 == PushWrap(PushAll(r[1], c.d, Repeat(r[2], c.h)), S.cur, r[2])
              IN IF S1.status = "run" THEN [S1 EXCEPT !.cur = c.d] ELSE S1
Exec(S, c) == CASE c.k = 0 -> Cmd0(S, c) [] c.k = 1 -> Cmd1(S, c) [] c.k = 2 -> Cmd2(S, c)
                [] c.k = 3 -> Cmd3(S, c) [] c.k = 4 -> Cmd4(S, c) [] c.k = 5 -> Cmd5(S, c)

\* ------------------------------------------------------------------ area: branches
RECURSIVE EvalArea(_,_,_)
\* <<state, heart type reached (0: none)>>; ? takes its left iff popped < count, ! iff popped = count
EvalArea(S, a, cnt) ==
  IF a = Nil THEN <<S, 0>>
  ELSE IF a[1] = "h" THEN <<S, a[2]>>
  ELSE LET r == PopWrap(S, S.cur)
           c == RCmp(r[2], RInt(cnt))
       IN IF r[1].status # "run" THEN <<r[1], 0>>
          ELSE IF (a[1] = "?" /\ c = "lt") \/ (a[1] = "!" /\ c = "eq")
               THEN EvalArea(r[1], a[2], cnt) ELSE EvalArea(r[1], a[3], cnt)

\* ------------------------------------------------------------------ jumps
Jump(S, at, cnt, t) ==
  IF t = 0 THEN [S EXCEPT !.pc = at + 1]
  ELSE IF t # 13
       THEN LET id == <<cnt, t>> IN
            IF id \in DOMAIN S.labels
            THEN IF S.labels[id] # at THEN [S EXCEPT !.last = at, !.pc = S.labels[id]]
                                     ELSE [S EXCEPT !.pc = at + 1]
            ELSE [S EXCEPT !.labels = [j \in (DOMAIN S.labels) \cup {id} |-> IF j = id THEN at ELSE S.labels[j]],
                           !.pc = at + 1]
  ELSE IF S.last # NoLast THEN [S EXCEPT !.pc = S.last] ELSE [S EXCEPT !.pc = at + 1]

\* one command: execute, evaluate the area against the (possibly new) selected stack, jump
Step(S, prog) ==
  LET c  == prog[S.pc + 1]
      S1 == Exec(S, c)
      ar == EvalArea(S1, c.a, AreaCount(c))
  IN IF ar[1].status # "run" THEN ar[1] ELSE Jump(ar[1], S.pc, AreaCount(c), ar[2])

\* ------------------------------------------------------------------ whole runs
RECURSIVE SplitLines(_,_)
\* standard input as lines, each including its line feed; the last line may lack one
SplitLines(t, acc) ==
  IF t = <<>> THEN (IF acc = <<>> THEN <<>> ELSE <<acc>>)
  ELSE IF Head(t) = 10 THEN <<Append(acc, 10)>> \o SplitLines(Tail(t), <<>>)
  ELSE SplitLines(Tail(t), Append(acc, Head(t)))

EmptyFn == [x \in {} |-> 0]
InitState(input) == [pc |-> 0, cur |-> 3, st |-> EmptyFn, labels |-> EmptyFn, last |-> NoLast,
                     inp |-> SplitLines(input, <<>>), out |-> <<>>, err |-> <<>>, status |-> "run"]

Running(S, prog) == S.status = "run" /\ S.pc < Len(prog)
\* how a run that stopped has ended
Ending(S, prog) == IF S.status = "run" THEN (IF S.pc >= Len(prog) THEN "end" ELSE "running") ELSE S.status

\* at most n steps.  Written as a strict left fold (SequencesExt!FoldLeft is evaluated in Java with
\* evaluated accumulators): a RECURSIVE definition passing Step(S, prog) along makes TLC re-evaluate
\* the lazy argument at every use, which is exponential in the number of steps.
RunFor(S, prog, n) ==
  FoldLeft(LAMBDA acc, i : IF Running(acc, prog) THEN Step(acc, prog) ELSE acc, S, [i \in 1 .. n |-> i])

\* the same, but also stopping (as a cut run) once a value outgrows `cap` digits: a squaring loop
\* doubles its digits every round and the reference run must not follow it there
\* (a value is on top of its stack when it is created and the test runs after every step, so only
\* the tops are looked at)
BigValue(S, cap) == \E i \in DOMAIN S.st :
                      LET v == S.st[i][Len(S.st[i])] IN
                      ~IsNaN(v) /\ (Len(v.num.mag) > cap \/ Len(v.den.mag) > cap)
RunCapped(S, prog, n, cap) ==
  FoldLeft(LAMBDA acc, i : IF Running(acc, prog) /\ ~BigValue(acc, cap) THEN Step(acc, prog) ELSE acc, S, [i \in 1 .. n |-> i])

\* what the outside world observes
Obs(S, prog) == [out |-> S.out, err |-> S.err, ending |-> Ending(S, prog)]

\* does this program read standard input within n steps? (the reference run refills stack 0)
ReadsInputFor(S, prog, n) == Len(RunFor(S, prog, n).inp) < Len(S.inp)
\* ... or even try to (a pop from an empty stack 0 at end of input blocks a shared terminal too)
PopsInputFor(S, prog, n) ==
  FoldLeft(LAMBDA acc, i : IF acc[2] \/ ~Running(acc[1], prog) THEN acc
                          ELSE LET c == prog[acc[1].pc + 1] IN
                               <<Step(acc[1], prog), acc[1].cur = 0 \/ (c.k = 5 /\ c.d = 0 /\ c.a # Nil)>>,
           <<S, FALSE>>, [i \in 1 .. n |-> i])[2]

\* ------------------------------------------------------------------ invariants of any state
NoNaNAtBottom(S) == \A i \in DOMAIN S.st : S.st[i] # <<>> /\ ~IsNaN(S.st[i][1])
AllCanonicalValues(S) == \A i \in DOMAIN S.st : \A j \in DOMAIN S.st[i] : IsCanonicalRat(S.st[i][j])
BackwardOnly(S, prog) == S.pc <= Len(prog) /\ S.last < Len(prog)
                         /\ \A id \in DOMAIN S.labels : S.labels[id] < Len(prog)
=============================================================================
