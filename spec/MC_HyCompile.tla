---------------------------- MODULE MC_HyCompile ----------------------------
(* (M) for C03: the emitted block program is observably equivalent to the reference run for      *)
(* every program of the slices at every level; every area-carrying command is alone in its      *)
(* block; the dispatch tree built for n blocks leads state i to block i for all n <= MaxBlocks. *)
EXTENDS HyCompile, HySlices, HyGrammar, Json
CONSTANTS MaxLen, MaxSteps, MaxBlocks, DumpOn
VARIABLES prog, input
vars == <<prog, input>>
Init == prog = <<>> /\ input \in Inputs
Next == Len(prog) < MaxLen /\ \E c \in Alphabet : prog' = Append(prog, c) /\ UNCHANGED input
Spec == Init /\ [][Next]_vars

R0 == RunLevel0(prog, input, MaxSteps)
RP == Renumber(prog)
K2 == PreExec(RP, InitState(input)).k
Eq(level) == CompiledEquiv(R0, prog, CompiledRun(prog, input, level, MaxSteps),
                           IF level = 0 THEN prog ELSE RP, IF level = 2 THEN K2 ELSE 0)
Compiled0 == Eq(0)
Compiled1 == Eq(1)
Compiled2 == Eq(2)
Alone == AreaAlone(RP, K2) /\ AreaAlone(prog, 0)
Dispatch == prog = <<>> => \A n \in 1 .. MaxBlocks : DispatchCorrect(n)
\* witnesses (expected to be violated): the residual part jumps back into pre-executed blocks;
\* a pending return-jump target and labels survive pre-execution
Reach_JumpBackIntoPrefix ==
  ~(K2 >= 1 /\ K2 < Len(prog) /\
    LET T == CompiledRun(prog, input, 2, MaxSteps) IN T.last # NoLast /\ T.last >= StartBlock(RP, K2))
Reach_PendingLast == ~(K2 < Len(prog) /\ PreExec(RP, InitState(input)).S.last # NoLast)
FlatCmd(c) == [k |-> c.k, h |-> c.h, d |-> c.d, ap |-> Prefix(c.a)]
Dump == (DumpOn /\ Len(prog) >= 1) =>
          PrintT(<<"REPLAY", ToJson([prog |-> [i \in DOMAIN prog |-> FlatCmd(prog[i])], input |-> input, ending |-> Ending(R0, prog)])>>)
=============================================================================
