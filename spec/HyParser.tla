------------------------------ MODULE HyParser ------------------------------
(***************************************************************************)
(* Operational model of src/core/parse.rs: the three-state machine over    *)
(* characters with its look-ahead pre-pass (max_pos), the pending command  *)
(* (type_, hangul_count, dot_count, loc, raw_command) and the two trees    *)
(* under construction (`area` = the current !-chain, `qu` = the ?-spine).  *)
(* The code's cursors `leaf` / `qu_leaf` always point at the deepest       *)
(* operator node on the right spine; here that is the recursion of         *)
(* PutBang / PutHeart / PutQu along the right spine.                       *)
(*                                                                         *)
(* One operator per arm of the `match`.  MC_HyParser checks that the       *)
(* machine computes exactly HyGrammar!Commands for every small text.       *)
(***************************************************************************)
EXTENDS HyGrammar

\* pre-pass: last position of an end syllable of each class (0: none)
MaxPos(t, startc) ==
  LET S == {j \in 1 .. Len(t) : t[j] \in EndsOf(startc)}
  IN IF S = {} THEN 0 ELSE CHOOSE m \in S : \A k \in S : k <= m

\* tree surgery at the deepest node of the right spine (what leaf / qu_leaf point at)
RECURSIVE PutBang(_)
PutBang(a) == IF a = Nil THEN <<"!", Nil, Nil>>
              ELSE IF a[1] = "h" THEN <<"!", a, Nil>>
              ELSE <<"!", a[2], PutBang(a[3])>>
RECURSIVE PutHeart(_,_)
PutHeart(a, ty) == IF a = Nil THEN Heart(ty)
                   ELSE IF a[1] = "h" THEN a                      \* not the first heart of its slot
                   ELSE <<"!", a[2], PutHeart(a[3], ty)>>
RECURSIVE PutQu(_,_)
PutQu(q, a) == IF q = Nil THEN <<"?", a, Nil>> ELSE <<"?", q[2], PutQu(q[3], a)>>
RECURSIVE CloseQu(_,_)
CloseQu(q, a) == IF q = Nil THEN a ELSE <<"?", q[2], CloseQu(q[3], a)>>

NoType == 10
StartType(c) == CASE c = 54784 -> 6 [] c = 54616 -> 7 [] c = 55120 -> 8
StartOfType(ty) == CASE ty = 6 -> 54784 [] ty = 7 -> 54616 [] ty = 8 -> 55120

PInit == [st |-> 0, ty |-> NoType, h |-> 0, d |-> 0, line |-> 1, col |-> 0, raw |-> <<>>,
          area |-> Nil, qu |-> Nil, res |-> <<>>, lines |-> 0, lls |-> 0]

Pending(p) == [k |-> p.ty, h |-> p.h, d |-> p.d, a |-> CloseQu(p.qu, p.area),
               line |-> p.line, col |-> p.col, raw |-> p.raw]
Flush(p) == IF p.ty = NoType THEN p.res ELSE Append(p.res, Pending(p))

\* ---- arms.  i is the 1-based position of character c in text t.
ArmSpace(p, c, i) == IF c = Newline THEN [p EXCEPT !.lines = @ + 1, !.lls = i] ELSE p

ArmCommandStart(p, c, i) ==
  [p EXCEPT !.res = Flush(p), !.area = Nil, !.qu = Nil,
            !.ty = IF c \in SingleCmds THEN KindOfSingle(c) ELSE StartType(c),
            !.h = 1, !.d = 0, !.line = p.lines + 1, !.col = (i - 1) - p.lls, !.raw = <<c>>,
            !.st = IF c \in SingleCmds THEN 0 ELSE 1]
ArmDot(p, c) == IF p.st = 0 THEN [p EXCEPT !.d = @ + DotVal(c), !.raw = Append(@, c)] ELSE p
ArmQuestion(p, c) == [p EXCEPT !.qu = PutQu(p.qu, p.area), !.area = Nil, !.raw = Append(@, c), !.st = 2]
ArmBang(p, c) == [p EXCEPT !.area = PutBang(p.area), !.raw = Append(@, c), !.st = 2]
ArmHeart(p, c) == [p EXCEPT !.area = PutHeart(p.area, HeartType(c)), !.raw = Append(@, c), !.st = 2]
\* inside a multi-syllable command (state 1)
ArmInside(p, c) ==
  LET q == IF IsHangul(c) THEN [p EXCEPT !.h = @ + 1, !.raw = Append(@, c)] ELSE p
  IN IF c \in EndsOf(StartOfType(p.ty)) THEN [q EXCEPT !.ty = KindOfEnd(c), !.d = 0, !.st = 0] ELSE q

ArmName(p, t, i) ==
  LET c == t[i] IN
  IF IsSpace(c) THEN "Space"
  ELSE IF p.st = 1 THEN "Inside"
  ELSE IF c \in SingleCmds THEN "CommandStart"
  ELSE IF c \in Starts THEN (IF MaxPos(t, c) > i THEN "CommandStart" ELSE "StartIgnored")
  ELSE IF DotVal(c) > 0 THEN "Dot"
  ELSE IF c = Question THEN "Question"
  ELSE IF c = Bang THEN "Bang"
  ELSE IF IsHeart(c) THEN "Heart"
  ELSE "Other"

PStep(p, t, i) ==
  LET c == t[i]  arm == ArmName(p, t, i) IN
  CASE arm = "Space" -> ArmSpace(p, c, i)
    [] arm = "Inside" -> ArmInside(p, c)
    [] arm = "CommandStart" -> ArmCommandStart(p, c, i)
    [] arm = "Dot" -> ArmDot(p, c)
    [] arm = "Question" -> ArmQuestion(p, c)
    [] arm = "Bang" -> ArmBang(p, c)
    [] arm = "Heart" -> ArmHeart(p, c)
    [] OTHER -> p                                  \* StartIgnored, Other: `continue`

\* the main loop over the characters (a strict left fold: linear for TLC on long texts)
PRun(p, t) == FoldLeft(LAMBDA acc, i : PStep(acc, t, i), p, [i \in 1 .. Len(t) |-> i])
\* the command list parse.rs returns for text t
Parse(t) == Flush(PRun(PInit, t))
=============================================================================
